#!/usr/bin/python3
"""c13_model.py [--tier quick|thorough] [--out result.json] [--replay witness.json]

C13, part 3 of DESIGN.md 3/C13: the Promela model of the table-publication protocol, bound to the code.

  1. bin/extract_tables_protocol.py reads ensure_tables()/tables_are_ready() from the working tree
     (VERIF_REPO) -> memory order of every atomic operation, CAS vs load+store, program order of the
     winner's pointer stores vs the READY store. Shape not recognised => "model unbound", exit 0.
  2. models/tables_init.pml is instantiated with those parameters (-D), `spin -a`, pan compiled with
     -DSAFETY -DMEMLIM, run exhaustively under `timeout` for N = 2 and N = 3 threads (inflate failing or
     not and every fast-entry mask chosen nondeterministically inside the model). An assertion violation
     or invalid end state => violation class C13/model/<assert-name>, witness = `spin -t` output.
  3. Binding back to the code: the model is re-run with history variables (-DENUM; every scheduling and
     read choice is part of the state, so no two executions are merged; pan prints one EXEC line per
     complete execution; an independent Python enumerator of the same semantics must arrive at the same
     counts). Every sequentially consistent execution (each load read the newest message) is a
     schedule = thread id per atomic operation; it is forced on the REAL code with drv_sched's order mode
     (shim build: one step per atomic operation, one fresh forked process per schedule, batched through
     `drv_sched --orders file`) and the first len(schedule) atomic operations of the real run must equal
     the model's, operation by operation: thread, kind (load/store/rmw), value read or written, success
     flag AND the run-time std::memory_order (so the extractor's orders are checked against what the
     compiled code really passes); the claim winner and each thread's boolean result (its output equals
     the single-threaded output <=> ensure_tables() returned true) must match as well. A mismatch that
     reproduces in two more fresh processes => class C13/model/conformance.
     When the model is violated, a sequentially consistent counterexample is looked for (-DSCONLY) and,
     if there is one, forced on the real code too; what the code did is part of the witness.

Result JSON has the shape of the drivers' shard results (evaluations, counters{states, transitions,
traces_validated}, violations[], samples[], exhaustive, note) so that check.py's merge_stage consumes it.
`run(tier) -> dict` is the entry point for check.py; exit code of the CLI: 0 (also when unbound), 1 only
with --replay when the witness reproduces.
"""
import argparse
import concurrent.futures as cf
import hashlib
import json
import os
import re
import shutil
import subprocess
import sys
import tempfile
import time

sys.path.insert(0, os.path.dirname(os.path.abspath(__file__)))
import vlib  # noqa: E402
import extract_tables_protocol as xtp  # noqa: E402

MODEL = os.path.join(vlib.VERIF, "models", "tables_init.pml")
SPINROOT = os.path.join(vlib.BUILD, "models-spin")
VNAMES = {1: "one_winner", 2: "ready_exists", 3: "failed_exists", 4: "deref_published", 9: "model_internal"}
VTEXT = {
    "one_winner": "more than one thread claims the initialisation (tables inflated / pointers written twice)",
    "ready_exists": "a thread returns true although no READY message exists",
    "failed_exists": "a waiter returns false although no FAILED message exists",
    "deref_published": "ensure_tables() returned true but the pointer stores do not happen-before the caller "
                       "(data race on the table pointers)",
    "waiter_blocked": "a waiter can never leave its loop (in the code: returns false after 1e9 spins without any failure)",
    "model_internal": "modification order longer than the model allows (model error, not a finding)",
}
# drv_sched cases whose first call per thread starts with ensure_tables()'s first load and touches no other
# atomic before it returns (no ada::parse => no max_input_length load): see make_case() in drv_sched.cpp
H1_CASES = [0, 2, 3, 4, 5, 8, 9, 10, 11]
H2_CASES = [0, 2, 4]
SCHED_SRC = ["harness/drv_sched.cpp"]
SCHED_PLAIN = ["harness/sched/sched.cpp"]


def log(*a):
    print("[c13-model]", *a, file=sys.stderr, flush=True)


# ---------------------------------------------------------------- parameters -> -D

def defs_for(p, n, inflate, fastentry, enum=False, spinmax=1):
    claim = {"cas": 0, "store_on_first_load": 1, "load_store": 2}[p["claim"]]
    d = {"N": n, "ORD_INIT_LOAD": p["init_load"], "CLAIM": claim,
         "ORD_READY_STORE": p["ready_store"], "PTRS_AFTER_READY": p["ptrs_after_ready"],
         "FAIL_STORE_PRESENT": p["fail_store_present"], "ORD_FAIL_STORE": p["fail_store"],
         "ORD_SPIN_LOAD": p["spin_load"], "ORD_FAST_LOAD": p["fast_load"],
         "INFLATE_FAILS": inflate, "FASTENTRY": fastentry, "SPINMAX": spinmax}
    if claim == 0:
        d.update(ORD_CAS_OK=p["cas_ok"], ORD_CAS_FAIL=p["cas_fail"], CAS_WEAK=p.get("cas_weak", 0))
    else:
        d.update(ORD_CLAIM_STORE=p["claim_store"])
        if claim == 2:
            d.update(ORD_CLAIM_LOAD=p["claim_load"])
    out = ["-D%s=%d" % (k, int(v)) for k, v in sorted(d.items())]
    if enum:
        out.append("-DENUM=1")
    return out


def invalid_orders(p):
    """memory orders the Standard does not allow for the operation (UB / rejected by the library)"""
    bad = []
    for k in ("init_load", "spin_load", "fast_load", "claim_load", "cas_fail"):
        if k in p and p[k] in (3, 4):
            bad.append(k)
    for k in ("ready_store", "fail_store", "claim_store"):
        if k in p and p[k] in (1, 2, 4):
            bad.append(k)
    return bad


# ---------------------------------------------------------------- spin / pan

def sh(cmd, cwd, timeout):
    try:
        r = subprocess.run(cmd, cwd=cwd, stdout=subprocess.PIPE, stderr=subprocess.STDOUT, text=True, timeout=timeout)
        return r.returncode, r.stdout
    except subprocess.TimeoutExpired as e:
        return 124, (e.stdout or "") if isinstance(e.stdout, str) else ""


def build_pan(work, name, defs, enum):
    """spin -a + gcc in work/name; returns (dir, error-or-None)"""
    d = os.path.join(work, name)
    os.makedirs(d)
    shutil.copy(MODEL, os.path.join(d, "tables_init.pml"))
    # -o2: keep write-only variables (the history) in the state vector
    rc, out = sh(["spin"] + (["-o2"] if enum else []) + ["-a"] + defs + ["tables_init.pml"], d, 120)
    if rc != 0 or not os.path.exists(os.path.join(d, "pan.c")) or "Error" in out:
        return d, "spin -a failed: " + out[-800:]
    if enum:
        with open(os.path.join(d, "pan.h")) as fh:
            if "hidden variable" in fh.read():
                return d, "spin hid a history variable: executions could be merged"
    cc = ["gcc", "-w", "-O2", "-DSAFETY", "-DMEMLIM=4096"] + (["-DPRINTF", "-DNOREDUCE"] if enum else []) + ["-o", "pan", "pan.c"]
    rc, out = sh(cc, d, 300)
    if rc != 0:
        return d, "gcc pan.c failed: " + out[-800:]
    return d, None


def parse_pan(out):
    r = {"states": 0, "transitions": 0, "errors": 0, "complete": True, "depth": 0}
    m = re.search(r"(\d+) states, stored", out)
    if m:
        r["states"] = int(m.group(1))
    else:
        r["complete"] = False
    m = re.search(r"(\d+) transitions \(", out)
    if m:
        r["transitions"] = int(m.group(1))
    m = re.search(r"depth reached (\d+), errors: (\d+)", out)
    if m:
        r["depth"], r["errors"] = int(m.group(1)), int(m.group(2))
    if "max search depth too small" in out or "out of memory" in out or "Search not completed" in out:
        r["complete"] = False
    return r


def verify(d, defs, timeout_s, maxerr):
    """exhaustive run; returns (stats, {class: (depth, trail_no)}, raw_tail)"""
    rc, out = sh(["timeout", str(int(timeout_s)), "./pan", "-m100000", "-w20", "-e", "-c%d" % maxerr], d, timeout_s + 30)
    st = parse_pan(out)
    if rc == 124:
        st["complete"] = False
    found = {}
    for m in re.finditer(r"^pan:(\d+): (assertion violated \((\d+)==0\)|invalid end state|[^\n(]+?)\s*\(at depth (\d+)\)", out, re.M):
        no, what, vid, depth = int(m.group(1)), m.group(2), m.group(3), int(m.group(4))
        if vid is not None:
            cls = VNAMES.get(int(vid), "assert_%s" % vid)
        elif what.startswith("invalid end state"):
            cls = "waiter_blocked"
        else:
            cls = "pan_" + re.sub(r"\W+", "_", what.strip())[:40]
        if cls not in found or depth < found[cls][0]:
            found[cls] = (depth, no)
    if st["errors"] >= maxerr:
        st["error_cap_hit"] = True
    return st, found, out[-1500:]


def trail_text(d, defs, no):
    rc, out = sh(["spin", "-t%d" % no] + defs + ["tables_init.pml"], d, 60)
    keep = []
    for ln in out.splitlines():
        s = ln.strip()
        if s.startswith(("OP ", "MODEL-VIOLATION", "spin:", "#processes", "pan:")) or "Error" in s or "invalid end" in s:
            keep.append(s)
    return keep


OP_RE = re.compile(r"OP thread (\d+) (load|store|cas)\s+order=(\d+) (?:reads|appends) message (\d+) \(value (\d+)(?:, last message is (\d+))?[^)]*\)(?: success=(\d))?")


def ops_of_trail(lines):
    """[(tid, kind, value, order, ok)], is_sc"""
    ops, sc = [], True
    for ln in lines:
        m = OP_RE.match(ln)
        if not m:
            continue
        t, k, o, idx, v, last, ok = m.groups()
        t, o, idx, v = int(t), int(o), int(idx), int(v)
        if k == "load":
            if last is not None and int(last) != idx:
                sc = False
            ops.append((t, 0, v, o, 1))
        elif k == "store":
            ops.append((t, 1, v, o, 1))
        else:
            ok = int(ok)
            ops.append((t, 2, 1 if ok else v, o, ok))   # success: the value written (INPROGRESS)
    return ops, sc


def enumerate_executions(d, timeout_s):
    """ENUM build: one EXEC line per complete execution. Returns (stats, [exec dicts], raw lines count)"""
    rc, out = sh(["timeout", str(int(timeout_s)), "./pan", "-m100000", "-w20"], d, timeout_s + 30)
    st = parse_pan(out)
    if rc == 124:
        st["complete"] = False
    seen = set()
    ex = []
    nlines = 0
    for m in re.finditer(r"^EXEC nonsc=(\d) winner=(\d+) nwin=(\d+) n=(\d+) res=([\d,]*) ops=(\S*)$", out, re.M):
        nlines += 1
        key = m.group(0)
        if key in seen:
            continue
        seen.add(key)
        ops = []
        for o in m.group(6).strip(";").split(";"):
            t, k, v, i, od, ok = (int(x) for x in o.split(":"))
            ops.append((t, k, v, od, ok))
        ex.append({"sc": m.group(1) == "0", "winner": int(m.group(2)), "nwin": int(m.group(3)),
                   "res": [int(x) for x in m.group(5).strip(",").split(",")], "ops": ops})
    st["exec_lines"] = nlines
    return st, ex


# ---------------------------------------------------------------- independent count of the executions

def count_executions(p, n, spinmax=1):
    """A second, independent enumeration (plain Python DFS over the same operational semantics, inflate succeeding,
    no fast entry) of the complete executions of the protocol: -> (all, sequentially consistent). Compared with
    the number of EXEC lines pan prints, so that neither state matching nor duplicate paths can go unnoticed."""
    READY, FAILED, UNINIT, INPROG = 2, 3, 0, 1
    claim = p["claim"]
    total = [0, 0]
    msgs = [(UNINIT, False)]                      # (value, written by a seq_cst operation)
    th = [{"pc": "init", "coh": 0, "spins": 0} for _ in range(n)]

    def readable(t, order):
        lo = th[t]["coh"]
        if order == 5:
            for i in range(len(msgs) - 1, lo, -1):
                if msgs[i][1]:
                    lo = i
                    break
        return range(lo, len(msgs))

    def go(sc):
        if all(x["pc"] == "done" for x in th):
            total[0] += 1
            total[1] += 1 if sc else 0
            return
        for t in range(n):
            T = th[t]
            pc = T["pc"]
            if pc == "done":
                continue
            save = dict(T)
            if pc in ("init", "claimload", "spin"):
                order = {"init": p["init_load"], "claimload": p.get("claim_load", 2), "spin": p["spin_load"]}[pc]
                for i in readable(t, order):
                    v = msgs[i][0]
                    if pc == "spin" and v < READY and T["spins"] >= spinmax:
                        continue
                    T["coh"] = i
                    if pc == "init":
                        if v >= READY:
                            T["pc"] = "done"
                        elif claim == "cas":
                            T["pc"] = "cas"
                        elif claim == "load_store":
                            T["pc"] = "claimload"
                        else:
                            T["pc"] = "claimstore" if v == UNINIT else "spin"
                    elif pc == "claimload":
                        T["pc"] = "claimstore" if v == UNINIT else "spin"
                    else:
                        if v >= READY:
                            T["pc"] = "done"
                        else:
                            T["spins"] += 1
                    go(sc and i == len(msgs) - 1)
                    T.update(save)
            elif pc == "cas":
                last = len(msgs) - 1
                if msgs[last][0] == UNINIT:
                    msgs.append((INPROG, p["cas_ok"] == 5))
                    T["coh"], T["pc"] = last + 1, "win"
                    go(sc)
                    msgs.pop()
                    T.update(save)
                    if p.get("cas_weak"):
                        T["coh"], T["pc"] = last, "spin"
                        go(sc)
                        T.update(save)
                else:
                    T["coh"], T["pc"] = last, "spin"
                    go(sc)
                    T.update(save)
            elif pc in ("claimstore", "win"):
                order = p.get("claim_store", 3) if pc == "claimstore" else p["ready_store"]
                msgs.append((INPROG if pc == "claimstore" else READY, order == 5))
                T["coh"], T["pc"] = len(msgs) - 1, ("win" if pc == "claimstore" else "done")
                go(sc)
                msgs.pop()
                T.update(save)

    go(True)
    return total[0], total[1]


# ---------------------------------------------------------------- the real code under the scheduler

def sched_exe():
    ok, exe, msg = vlib.build_driver("drv_sched", "shim", SCHED_SRC, plain_sources=SCHED_PLAIN)
    return (exe if ok else None), msg


def run_child(exe, harness, case, order, timeout=60):
    cmd = [exe, "--child", "1", "--harness", harness, "--case", str(case), "--order", ",".join(str(x) for x in order)]
    for attempt in range(2):
        try:
            r = subprocess.run(cmd, stdout=subprocess.PIPE, stderr=subprocess.PIPE, text=True, timeout=timeout * (1 + 4 * attempt))
            break
        except subprocess.TimeoutExpired:
            r = None
    if r is None:
        return {"rc": "timeout", "events": [], "results": {}, "diverged": 0, "status": -1}
    ev, res, status, div = [], {}, -1, 0
    for ln in r.stdout.splitlines():
        f = ln.split()
        if not f:
            continue
        if f[0] == "A" and len(f) >= 7:
            ev.append(tuple(int(x) for x in f[1:7]))      # tid kind addr value order ok
        elif f[0] == "S" and len(f) >= 4:
            status, div = int(f[1]), int(f[3])
        elif f[0] == "R" and len(f) >= 2:
            res[int(f[1])] = f[2] if len(f) > 2 else ""
    return {"rc": r.returncode, "events": ev, "results": res, "diverged": div, "status": status, "stderr": r.stderr[-300:]}


def run_ref(exe, harness, case, tid):
    try:
        r = subprocess.run([exe, "--ref", "1", "--harness", harness, "--case", str(case), "--tid", str(tid)],
                           stdout=subprocess.PIPE, stderr=subprocess.PIPE, text=True, timeout=60)
    except subprocess.TimeoutExpired:
        return None
    for ln in r.stdout.splitlines():
        f = ln.split()
        if f and f[0] == "R":
            return f[2] if len(f) > 2 else ""
    return None


def compare(ex_ops, winner_set, res, values, run, ref):
    """model execution vs real run -> (verdict, text). verdict: 'match' | 'mismatch' | 'unmappable'"""
    L = len(ex_ops)
    if run["rc"] != 0:
        return "mismatch", "real run did not complete normally under the model's schedule: rc=%s %s" % (run["rc"], run.get("stderr", ""))
    ev = run["events"]
    if len(ev) < L:
        return "mismatch", "real run performed %d atomic operations, the model's schedule has %d" % (len(ev), L)
    addr = ev[0][2]
    if any(e[2] != addr for e in ev[:L]):
        return "unmappable", "another atomic object is touched inside the schedule (harness case not suitable)"
    vmap = {0: values["uninit"], 1: values["inprogress"], 2: values["ready"], 3: values["failed"]}
    for i in range(L):
        t, k, v, od, ok = ex_ops[i]
        want = (t, k, vmap[v], od, ok)
        got = (ev[i][0], ev[i][1], ev[i][3], ev[i][4], ev[i][5])
        if want != got:
            return "mismatch", "atomic operation #%d: model (thread,kind,value,order,ok)=%s, code=%s" % (i, want, got)
    if run["diverged"]:
        return "mismatch", "the scheduler could not follow the model's schedule (a thread the model lets run was not runnable)"
    wins = set(e[0] for e in ev[:L] if e[3] == vmap[1] and ((e[1] == 2 and e[5] == 1) or e[1] == 1))
    if wins != set(winner_set):
        return "mismatch", "claim winners: model %s, code %s" % (sorted(winner_set), sorted(wins))
    for t, r in enumerate(res):
        same = run["results"].get(t) == ref[t]
        if (r == 1) != same:
            return "mismatch", "thread %d: model says ensure_tables() returned %s, code's result %s the single-threaded result" % (
                t, "true" if r == 1 else "false", "equals" if same else "differs from")
    return "match", ""


def winners_of(ops):
    return sorted(set(t for (t, k, v, od, ok) in ops if v == 1 and ((k == 2 and ok == 1) or k == 1)))


# ---------------------------------------------------------------- the stage

def new_result():
    return {"evaluations": 0, "nontrivial": 0, "exhaustive": True, "note": "", "distinct_count": 0, "distinct": [],
            "counters": {"states": 0, "transitions": 0, "traces_validated": 0}, "extra": {}, "class_counts": {},
            "samples": [], "violations": []}


def add_violation(res, cls, summary, witness, size):
    res["class_counts"][cls] = res["class_counts"].get(cls, 0) + 1
    res["violations"].append({"class": cls, "summary": summary, "size": size, "witness": witness})


def params_summary(p):
    o = p.get("orders_by_name", {})
    if p["claim"] == "cas":
        c = "compare_exchange_%s(%s/%s)" % ("weak" if p.get("cas_weak") else "strong", o.get("cas_ok"), o.get("cas_fail"))
    elif p["claim"] == "load_store":
        c = "load(%s)+store(%s)" % (o.get("claim_load"), o.get("claim_store"))
    else:
        c = "store(%s) on the first load's value" % o.get("claim_store")
    return "first load %s; claim %s; pointer stores %s store(READY, %s); store(FAILED, %s)%s; loop load %s; tables_are_ready load %s" % (
        o.get("init_load"), c, "AFTER" if p["ptrs_after_ready"] else "before", o.get("ready_store"), o.get("fail_store"),
        "" if p["fail_store_present"] else " MISSING on a failure branch", o.get("spin_load"), o.get("fast_load"))


def run(tier="quick", only=None):
    """only: optional dict restricting the work (used by --replay)."""
    t0 = time.time()
    thorough = tier.startswith("t")
    res = new_result()
    p = xtp.run()
    res["extra"]["timing_s"] = {"extract": round(time.time() - t0, 1)}
    # test hook (demonstrates the conformance check): JSON object merged over the extracted parameters, i.e. a
    # deliberately wrong extraction. Never set by check.py.
    if p.get("bound") and os.environ.get("VERIF_C13_MODEL_OVERRIDE"):
        p.update(json.loads(os.environ["VERIF_C13_MODEL_OVERRIDE"]))
        p["orders_by_name"] = {k: xtp.ORDER_NAMES[p[k]] for k in p.get("orders_by_name", {})}
        res["extra"]["override"] = os.environ["VERIF_C13_MODEL_OVERRIDE"]
    res["extra"]["model_bound"] = bool(p.get("bound"))
    if not p.get("bound"):
        res["exhaustive"] = False
        res["note"] = "model unbound: extractor did not recognise ensure_tables()/tables_are_ready() (%s); parts 1-2 of C13 decide alone" % p.get("reason")
        res["extra"]["unbound_reason"] = p.get("reason")
        log(res["note"])
        return res
    bad = invalid_orders(p)
    if bad:
        res["exhaustive"] = False
        res["note"] = "model unbound: memory order not valid for the operation (%s): behaviour undefined, not modelled" % ",".join(bad)
        res["extra"]["model_bound"] = False
        log(res["note"])
        return res
    res["extra"]["protocol"] = params_summary(p)
    res["extra"]["source_lines"] = p["lines"]
    log("bound to %s: %s" % (p["file"], res["extra"]["protocol"]))

    os.makedirs(SPINROOT, exist_ok=True)
    work = tempfile.mkdtemp(prefix="run-", dir=SPINROOT)
    try:
        _run_bound(res, p, thorough, work, only)
    finally:
        shutil.rmtree(work, ignore_errors=True)
    res["extra"]["wall_s"] = round(time.time() - t0, 1)
    return res


def _run_bound(res, p, thorough, work, only):
    ns = [2, 3]
    configs = []     # (name, defs, enum, n)
    for n in ns:
        configs.append(("v%d" % n, defs_for(p, n, 2, 255), False, n))
        configs.append(("e%d" % n, defs_for(p, n, 0, 0, enum=True), True, n))
    if only and only.get("kind") == "model":
        configs = [c for c in configs if c[0] == "v%d" % only["n"]]
    if only and only.get("kind") == "model-conformance":
        configs = []
    exe_future = None
    pool = cf.ThreadPoolExecutor(max_workers=max(4, min(12, vlib.NPROC)))
    builds = {c[0]: pool.submit(build_pan, work, c[0], c[1], c[2]) for c in configs}
    want_binding = not only or only.get("kind") == "model-conformance"
    if want_binding:
        exe_future = pool.submit(sched_exe)

    # ---- 2. exhaustive verification runs
    tm = res["extra"].setdefault("timing_s", {})
    t1 = time.time()
    viol = {}
    sizes = {}
    for name, defs, enum, n in configs:
        if enum:
            continue
        d, err = builds[name].result()
        if err:
            res["exhaustive"] = False
            res["note"] += "model N=%d not checked (%s). " % (n, err[:200])
            continue
        # fixed, generous limits (the runs take well under a second on an idle machine): a loaded machine must not
        # turn an exhaustive run into a silent partial one
        st, found, tail = verify(d, defs, 240 if thorough else 90, 500)
        res["counters"]["states"] += st["states"]
        res["counters"]["transitions"] += st["transitions"]
        res["evaluations"] += st["transitions"]
        res["nontrivial"] += st["transitions"]
        sizes["N=%d" % n] = {"states": st["states"], "transitions": st["transitions"], "depth": st["depth"], "errors": st["errors"]}
        if st.get("error_cap_hit"):
            res["note"] += "pan N=%d stopped at the cap of 500 errors. " % n
        elif not st["complete"]:
            res["exhaustive"] = False
            res["note"] += "pan N=%d did not complete. " % n
        for cls, (depth, no) in sorted(found.items()):
            lines = trail_text(d, defs, no)
            if cls == "model_internal" or cls.startswith("pan_"):
                res["exhaustive"] = False
                res["note"] += "model error N=%d (%s): not a verdict. " % (n, cls)
                continue
            if cls in viol and viol[cls]["depth"] <= depth:
                viol[cls]["also"] = "N=%d" % n
                continue
            viol[cls] = {"n": n, "depth": depth, "defs": defs, "trail": lines}
    res["extra"]["model_sizes"] = sizes
    tm["build_and_verify"] = round(time.time() - t1, 1)

    # prefer a sequentially consistent counterexample (SCONLY model): the real code can be driven through it
    for cls, v in sorted(viol.items()):
        d, err = build_pan(work, "sc-%s-%d" % (cls, v["n"]), v["defs"] + ["-DSCONLY=1"], False)
        if err:
            continue
        st, found, tail = verify(d, v["defs"] + ["-DSCONLY=1"], 20, 500)
        if cls in found:
            v.update(depth=found[cls][0], defs=v["defs"] + ["-DSCONLY=1"], trail=trail_text(d, v["defs"] + ["-DSCONLY=1"], found[cls][1]))
    # optional: is the counterexample sequentially consistent? then the real code can be driven through it
    exe = None
    if exe_future is not None:
        exe, msg = exe_future.result()
        if exe is None:
            res["exhaustive"] = False
            res["note"] += "shim build of drv_sched failed: the model could not be replayed on the code. "
    for cls, v in sorted(viol.items()):
        ops, sc = ops_of_trail(v["trail"])
        code = None
        if sc and exe and ops:
            h, case = ("H1", 0) if v["n"] == 2 else ("H2", 0)
            r = run_child(exe, h, case, [o[0] for o in ops])
            evs = [(e[0], e[1], e[3], e[4], e[5]) for e in r["events"][:len(ops)]]
            vmap = {0: p["values"]["uninit"], 1: p["values"]["inprogress"], 2: p["values"]["ready"], 3: p["values"]["failed"]}
            code = {"harness": h, "case": case, "order": [o[0] for o in ops], "exit_code": r["rc"],
                    "code_follows_counterexample": evs == [(t, k, vmap[vv], od, ok) for (t, k, vv, od, ok) in ops] and not r["diverged"],
                    "code_claim_winners": sorted(set(e[0] for e in evs if e[2] == vmap[1] and ((e[1] == 2 and e[4] == 1) or e[1] == 1)))}
        summary = "Promela model instantiated from %s (%s), N=%d: %s. Counterexample (%d atomic operations%s): %s" % (
            os.path.relpath(p["file"], vlib.REPO), res["extra"]["protocol"], v["n"], VTEXT.get(cls, cls), len(ops),
            ", sequentially consistent" if sc else ", needs a stale read", " | ".join(x for x in v["trail"] if x.startswith("OP "))[:900])
        if code is not None:
            summary += " || same schedule forced on the real code: %s" % (
                ("followed operation by operation, claim winners %s" % code["code_claim_winners"]) if code["code_follows_counterexample"]
                else ("process died with exit code %s" % r["rc"]) if r["rc"] != 0 else "not followed")
        w = {"kind": "model", "prop": "C13", "what": cls, "n": v["n"], "defs": v["defs"], "trail": v["trail"],
             "protocol": {k: p[k] for k in p if k not in ("lines", "file")}, "source_lines": p["lines"], "code_replay": code}
        add_violation(res, "C13/model/" + cls, summary, w, v["depth"])
        log("VIOLATION-CANDIDATE C13/model/%s N=%d depth %d" % (cls, v["n"], v["depth"]))

    # ---- 3. binding: enumerate the model's executions and force the SC ones on the real code
    if only and only.get("kind") == "model-conformance":
        exe = exe or sched_exe()[0]
        if exe is None:
            return
        ref = [run_ref(exe, only["harness"], only["case"], t) for t in range(only["n"])]
        ops = [tuple(o) for o in only["ops"]]
        r = run_child(exe, only["harness"], only["case"], [o[0] for o in ops])
        verdict, text = compare(ops, only["winners"], only["res"], p["values"], r, ref)
        print("replay %s case %d order %s: %s %s" % (only["harness"], only["case"], [o[0] for o in ops], verdict, text))
        if verdict == "mismatch":
            add_violation(res, "C13/model/conformance", text, only, len(ops))
        return
    if only:
        return
    if viol:
        res["note"] += "model violated: executions not enumerated (pan stops an execution at its first violation). "
        res["extra"]["executions"] = {}
        return
    if exe is None:
        return
    execs = {}
    for name, defs, enum, n in configs:
        if not enum:
            continue
        d, err = builds[name].result()
        if err:
            res["exhaustive"] = False
            res["note"] += "executions N=%d not enumerated (%s). " % (n, err[:200])
            continue
        st, ex = enumerate_executions(d, 240 if thorough else 90)
        if not st["complete"] or st["errors"]:
            res["exhaustive"] = False
            res["note"] += "enumeration N=%d incomplete. " % n
        execs[n] = ex
        mine = count_executions(p, n)
        pans = (len(ex), sum(1 for e in ex if e["sc"]))
        if mine != pans:
            # the model's enumeration and the independent one disagree: harness problem, never a verdict
            res["exhaustive"] = False
            res["note"] += "N=%d: pan enumerated %s executions (all, SC), the independent enumerator %s. " % (n, pans, mine)
        res["extra"].setdefault("executions", {})["N=%d" % n] = {
            "complete_executions": len(ex), "sequentially_consistent": sum(1 for e in ex if e["sc"]),
            "tree_states": st["states"], "exec_lines": st["exec_lines"], "independent_enumerator": list(mine)}
    tm["enumerate"] = round(time.time() - t1 - tm["build_and_verify"], 1)
    t2 = time.time()
    # the replay budget starts now (builds and model runs are behind us)
    deadline = time.time() + (240 if thorough else 40)
    required, bonus = [], []      # jobs: (n, harness, case, execution)
    for n, ex in sorted(execs.items()):
        harness, cases = ("H1", H1_CASES) if n == 2 else ("H2", H2_CASES)
        sc = sorted((e for e in ex if e["sc"]), key=lambda e: e["ops"])
        if n == 2:
            use = cases if thorough else [cases[0], cases[5], cases[6]]
            required += [(n, harness, c, e) for e in sc for c in use]
        elif thorough:
            # every sequentially consistent execution on one case is required; the other cases as time permits
            required += [(n, harness, cases[0], e) for e in sc]
            bonus += [(n, harness, c, e) for c in cases[1:] for e in sc]
        else:
            cap = 120
            step = max(1, -(-len(sc) // cap))
            picked = sc[::step]
            required += [(n, harness, cases[i % len(cases)], e) for i, e in enumerate(picked)]
            res["extra"]["quick_tier_bound"] = "N=3: every %d-th of the %d sequentially consistent executions (sorted) is replayed; all of them in the thorough tier" % (step, len(sc))
    jobs = required + bonus
    keys = sorted(set((j[0], j[1], j[2]) for j in jobs))
    ref_lines = ["ref %s %d %d" % (h, c, t) for (n, h, c) in keys for t in range(n)]
    ref_out = batch_run(exe, ref_lines, work, "ref", time.time() + 120)
    refs = {}
    i = 0
    for (n, h, c) in keys:
        got = [ref_out.get(i + t) for t in range(n)]
        i += n
        if any(g is None or g["rc"] != 0 or t not in g["results"] for t, g in enumerate(got)):
            res["exhaustive"] = False
            res["note"] += "reference run failed for %s/%d. " % (h, c)
            refs[(n, h, c)] = None
        else:
            refs[(n, h, c)] = [g["results"][t] for t, g in enumerate(got)]
    lines = ["%s %d %s" % (h, c, ",".join(str(o[0]) for o in e["ops"])) for (n, h, c, e) in jobs]
    out = batch_run(exe, lines, work, "rep", deadline)

    def judge(job, r):
        n, h, c, e = job
        ref = refs.get((n, h, c))
        if ref is None:
            return "unmappable", "no reference"
        return compare(e["ops"], winners_of(e["ops"]), e["res"], p["values"], r, ref)

    matched = unmap = flaky = missing_required = 0
    suspects = []
    for i, job in enumerate(jobs):
        r = out.get(i)
        if r is None:
            if i < len(required):
                missing_required += 1
            continue
        res["evaluations"] += 1
        res["nontrivial"] += 1
        verdict, text = judge(job, r)
        if verdict == "match":
            matched += 1
            n, h, c, e = job
            if len(res["distinct"]) < 20000:
                res["distinct"].append(hashlib.sha256(("%s/%d/%r" % (h, c, e["ops"])).encode()).hexdigest()[:16])
            if len(res["samples"]) < 6 and matched in (1, 2, 25, 70, 150, 1000):
                res["samples"].append({"model_execution": {"threads": n, "schedule": [o[0] for o in e["ops"]],
                                                            "ops(thread,kind,value,order,ok)": [list(o) for o in e["ops"]],
                                                            "winner": e["winner"], "results": e["res"]},
                                       "replayed_on": "%s case %d" % (h, c), "verdict": "code matches operation by operation"})
        elif verdict == "mismatch":
            suspects.append((job, text))
        else:
            unmap += 1
    # a mismatch must reproduce identically in two more fresh processes before it is reported
    mism = 0
    n_suspects = len(suspects)
    suspects = suspects[:12]
    if suspects:
        sl = ["%s %d %s" % (h, c, ",".join(str(o[0]) for o in e["ops"])) for ((n, h, c, e), _) in suspects]
        again = batch_run(exe, sl + sl, work, "confirm", time.time() + 120)
        for k, (job, text) in enumerate(suspects):
            r1, r2 = again.get(k), again.get(k + len(suspects))
            if r1 is not None and r2 is not None and judge(job, r1)[0] == "mismatch" and judge(job, r2)[0] == "mismatch":
                mism += 1
                n, h, c, e = job
                w = {"kind": "model-conformance", "prop": "C13", "n": n, "harness": h, "case": c, "ops": [list(o) for o in e["ops"]],
                     "winners": winners_of(e["ops"]), "res": e["res"], "what": text}
                add_violation(res, "C13/model/conformance", "model execution %s forced on %s case %d: %s" % ([o[0] for o in e["ops"]], h, c, text), w, len(e["ops"]))
            else:
                flaky += 1
    if missing_required:
        res["exhaustive"] = False
        res["note"] += "time budget reached: %d of %d required replays not run. " % (missing_required, len(required))
    if unmap or flaky:
        res["exhaustive"] = False
        res["note"] += "%d replays not mappable, %d not reproducible (harness, not a verdict). " % (unmap, flaky)
    res["distinct_count"] = len(res["distinct"])
    tm["replay_on_code"] = round(time.time() - t2, 1)
    res["counters"]["traces_validated"] = matched
    res["counters"]["model_traces_replayed"] = matched + n_suspects + unmap
    res["counters"]["model_traces_mismatched"] = mism
    res["extra"]["replays"] = {"required": len(required), "optional": len(bonus), "run": matched + n_suspects + unmap, "matched": matched}
    conf = sorted((v for v in res["violations"] if v["class"] == "C13/model/conformance"), key=lambda v: v["size"])[:3]
    res["violations"] = [v for v in res["violations"] if v["class"] != "C13/model/conformance"] + conf


def batch_run(exe, lines, work, tag, deadline):
    """Run drv_sched --orders over `lines` in parallel runner processes (each forks one fresh child per line).
    Returns {line index: {"rc", "events", "results", "diverged", "status"}} for the lines completed in time."""
    if not lines:
        return {}
    k = max(1, min(len(lines), vlib.NPROC, 16))
    procs = []
    for w in range(k):
        idx = list(range(w, len(lines), k))
        fin = os.path.join(work, "%s-%d.in" % (tag, w))
        fout = os.path.join(work, "%s-%d.out" % (tag, w))
        with open(fin, "w") as fh:
            fh.write("".join(lines[i] + "\n" for i in idx))
        oh = open(fout, "w")
        procs.append((subprocess.Popen([exe, "--orders", fin, "--timeout_ms", "30000"], stdout=oh, stderr=subprocess.DEVNULL), oh, fout, idx))
    for pr, oh, fout, idx in procs:
        try:
            pr.wait(timeout=max(0.1, deadline - time.time()))
        except subprocess.TimeoutExpired:
            pr.kill()
            pr.wait()
        oh.close()
    out = {}
    for pr, oh, fout, idx in procs:
        cur = None
        with open(fout, errors="replace") as fh:
            for ln in fh:
                f = ln.split()
                if not f:
                    continue
                if f[0] == "X" and len(f) >= 6:
                    cur = {"no": int(f[1]), "rc": int(f[2]) if f[3] == "0" else "timeout", "status": int(f[4]), "diverged": int(f[5]),
                           "events": [], "results": {}, "stderr": ""}
                elif cur is None:
                    continue
                elif f[0] == "A" and len(f) >= 7:
                    cur["events"].append(tuple(int(x) for x in f[1:7]))
                elif f[0] == "R":
                    cur["results"][int(f[1])] = f[2] if len(f) > 2 else ""
                elif f[0] == "T" and len(f) > 1:
                    try:
                        cur["stderr"] = bytes.fromhex(f[1]).decode("utf-8", "replace")
                    except ValueError:
                        pass
                elif f[0] == "E":
                    if cur["no"] < len(idx):
                        out[idx[cur["no"]]] = cur
                    cur = None
    return out


def replay(witness, tier="quick"):
    """Re-run the part of the stage a witness belongs to on the current tree -> (reproduced, text)."""
    w = witness.get("witness", witness)
    r = run(tier, only=w)
    want = "C13/model/conformance" if w.get("kind") == "model-conformance" else "C13/model/" + str(w.get("what"))
    hit = [v for v in r["violations"] if v["class"] == want]
    if not hit:
        return False, "not reproduced (%s)" % (r["note"] or "model holds for the current tree")
    text = "reproduced %s: %s" % (hit[0]["class"], hit[0]["summary"][:1500])
    for ln in (hit[0]["witness"].get("trail") or []):
        text += "\n  " + ln
    return True, text


def main():
    ap = argparse.ArgumentParser()
    ap.add_argument("--tier", default=os.environ.get("VERIF_TIER", "quick"))
    ap.add_argument("--out", default=None)
    ap.add_argument("--replay", default=None)
    ap.add_argument("--shard", default=None)    # accepted and ignored: the stage is one process
    ap.add_argument("--data", default=None)
    a = ap.parse_args()
    if a.replay:
        with open(a.replay) as fh:
            ok, text = replay(json.load(fh), a.tier)
        print(text)
        return 1 if ok else 0
    r = run(a.tier)
    txt = json.dumps(r, indent=1, sort_keys=True)
    if a.out:
        with open(a.out, "w") as fh:
            fh.write(txt + "\n")
    else:
        print(txt)
    for v in r["violations"]:
        log("candidate %s: %s" % (v["class"], v["summary"][:300]))
    log("states=%d transitions=%d traces_validated=%d violations=%d exhaustive=%s %s" % (
        r["counters"]["states"], r["counters"]["transitions"], r["counters"]["traces_validated"], len(r["violations"]),
        r["exhaustive"], r["note"]))
    return 0


if __name__ == "__main__":
    sys.exit(main())
