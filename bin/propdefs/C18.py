# C18 (behaviour does not depend on the build configuration): custom orchestrator around harness/drv_cfgdump.cpp
#
# One dump driver is compiled against each library configuration of vlib.CONFIGS listed below; every build walks the
# same indexable enumeration and emits one 64-bit digest per block of 4096 cases. Digests are compared with the
# reference build (rel). For mismatching blocks the reference build writes per-case records (observation hash + one
# 32-bit hash per observation group) and the other build re-runs those blocks against the records, which yields every
# differing case with the groups that differ (narrow class). Representatives of every class are confirmed by replaying
# the single case in fresh processes of both builds, twice. An abort in any build is attributed by the driver to the
# case in flight (forked worker + shared memory) and confirmed by replay in that build.

C18_SRC = ["harness/drv_cfgdump.cpp"]
C18_CONFIGS = ["rel", "ssse3", "avx512", "dev", "amalg"]
C18_REF = "rel"
C18_LEVEL = "exploration"


def _c18_has_avx512():
    try:
        with open("/proc/cpuinfo") as fh:
            txt = fh.read()
    except OSError:
        return False
    flags = set()
    for line in txt.splitlines():
        if line.startswith("flags"):
            flags.update(line.split(":", 1)[1].split())
            break
    return "avx512bw" in flags and "avx512vl" in flags


def _c18_replay_once(exe, cfg, wpath, timeout=300):
    """Run one case alone in a fresh process of build cfg. Returns dict(hash, abort, site, text, rc)."""
    import re
    import subprocess
    try:
        r = subprocess.run([exe, "--config", cfg, "--replay", wpath], stdout=subprocess.PIPE, stderr=subprocess.STDOUT,
                           text=True, errors="replace", timeout=timeout)
        out, rc = r.stdout, r.returncode
    except subprocess.TimeoutExpired:
        return {"hash": None, "abort": True, "site": "hang", "text": "timeout during replay", "rc": -9}
    m = re.search(r"^OBS-HASH ([0-9a-f]{16})", out, re.M)
    a = re.search(r"^ABORT sig=(\d+) site=(.*)$", out, re.M)
    return {"hash": m.group(1) if m else None, "abort": a is not None, "site": a.group(2) if a else None,
            "text": out, "rc": rc}


def _c18_first_diff(ta, tb):
    la = [x for x in ta.splitlines() if x.startswith("[")]
    lb = [x for x in tb.splitlines() if x.startswith("[")]
    for i in range(max(len(la), len(lb))):
        xa = la[i] if i < len(la) else "<absent>"
        xb = lb[i] if i < len(lb) else "<absent>"
        if xa != xb:
            return xa, xb
    return None, None


def c18_custom(prop, tier, a):
    import concurrent.futures as cf
    import json
    import os
    import shutil
    import tempfile
    import time

    spec = SPECS[prop]
    t0 = time.time()
    assumptions = spec["assumptions"]
    rule = spec["rule"]
    notes = []
    exhaustive = True
    cfgs = list(C18_CONFIGS)
    if not _c18_has_avx512():
        cfgs.remove("avx512")
        exhaustive = False
        notes.append("CPU lacks avx512bw/avx512vl: the avx512 configuration was not run")

    def fail(msg):
        cov = {"evaluations": 0, "distinct_nontrivial": 0, "rule": rule, "samples": [], "exhaustive": False}
        return vlib.finish(prop, tier, C18_LEVEL, cov, t0, [], assumptions, broken=msg)

    exes = {}
    with cf.ThreadPoolExecutor(max_workers=len(cfgs)) as ex:
        for cfg, (ok, exe, msg) in zip(cfgs, ex.map(lambda c: vlib.build_driver("drv_cfgdump", c, C18_SRC), cfgs)):
            if not ok:
                return fail("build of configuration %s failed: %s" % (cfg, msg))
            exes[cfg] = exe
    if a.build_only:
        return 0

    # ------------------------------------------------------------------ replay of a stored witness in every build
    if a.replay:
        with open(a.replay) as fh:
            v = json.load(fh)
        w = v.get("witness", v)
        fd, wp = tempfile.mkstemp(prefix="verif-c18-replay-", suffix=".json")
        with os.fdopen(fd, "w") as fh:
            json.dump(w, fh)
        try:
            res = {c: _c18_replay_once(exes[c], c, wp) for c in cfgs}
        finally:
            os.unlink(wp)
        print(res[C18_REF]["text"].split("\n")[0])
        bad = False
        for c in cfgs:
            r = res[c]
            print("  %-7s %s" % (c, ("ABORT at " + str(r["site"])) if r["abort"] else ("observation hash " + str(r["hash"]))))
            if r["abort"] or r["hash"] != res[C18_REF]["hash"]:
                bad = True
        for c in cfgs:
            if c != C18_REF and not res[c]["abort"] and not res[C18_REF]["abort"] and res[c]["hash"] != res[C18_REF]["hash"]:
                xa, xb = _c18_first_diff(res[C18_REF]["text"], res[c]["text"])
                print("expected (%s build): %s\nobserved (%s build): %s" % (C18_REF, xa, c, xb))
            if res[c]["abort"]:
                print("expected: normal return in every configuration; observed (%s build):\n%s" % (c, res[c]["text"][-800:]))
        return 1 if bad else 0

    # ------------------------------------------------------------------ digest pass, one configuration after the other
    deadline = spec.get("deadline", {}).get(tier, 300)
    t_end = time.time() + deadline      # the enumeration budget starts after the builds
    data = {}
    stage_info = []
    harness_problem = None
    for n, cfg in enumerate(cfgs):
        ts = time.time()
        left = max(20.0, (t_end - ts) / (len(cfgs) - n))
        args = ["--tier", tier, "--config", cfg, "--ref", C18_REF, "--deadline", "%d" % int(left)]
        if cfg == C18_REF:
            args += ["--distinct", "1"]
        res = vlib.run_shards(exes[cfg], args, vlib.NPROC, left + 60)
        d = {"blocks": {}, "aborts": [], "cases": 0, "nontrivial": 0, "distinct": set(), "distinct_n": 0, "sections": None,
             "total_cases": None, "total_blocks": None, "complete": True, "capped": 0}
        for rc, j, tail in res:
            if j is None:
                d["complete"] = False
                if rc == -9:
                    notes.append("a %s shard hit the wall-clock cap" % cfg)
                else:
                    harness_problem = "shard of configuration %s died rc=%s: %s" % (cfg, rc, tail[-600:])
                continue
            e = j.get("extra", {})
            for b, dg in e.get("blocks", []):
                d["blocks"][b] = dg
            d["aborts"].extend(e.get("aborts", []))
            d["cases"] += j.get("evaluations", 0)
            d["nontrivial"] += j.get("nontrivial", 0)
            d["distinct"].update(j.get("distinct", []))
            d["distinct_n"] += j.get("counters", {}).get("distinct_in_shard", 0)
            d["capped"] += j.get("counters", {}).get("distinct_capped_shards", 0)
            if d["sections"] is None or any("first_case" in s_ for s_ in e.get("sections", [])):
                d["sections"] = e.get("sections", d["sections"])
            d["total_cases"] = e.get("total_cases", d["total_cases"])
            d["total_blocks"] = e.get("total_blocks", d["total_blocks"])
            if not j.get("exhaustive", True):
                d["complete"] = False
                if j.get("note"):
                    notes.append("%s: %s" % (cfg, j["note"]))
        data[cfg] = d
        stage_info.append({"stage": "digest", "driver": "drv_cfgdump", "config": cfg, "shards": vlib.NPROC,
                           "cases": d["cases"], "blocks": len(d["blocks"]), "aborts": len(d["aborts"]),
                           "wall_s": round(time.time() - ts, 1)})
        if not d["complete"]:
            exhaustive = False
    ref = data[C18_REF]
    if harness_problem or not ref["blocks"]:
        return fail(harness_problem or "reference configuration produced no digests")

    # ------------------------------------------------------------------ compare digests with the reference build
    mism = {}
    for cfg in cfgs:
        if cfg == C18_REF:
            continue
        if data[cfg]["total_cases"] != ref["total_cases"]:
            return fail("enumeration size differs between builds (%s: %s, %s: %s): the dump driver is not configuration independent"
                        % (C18_REF, ref["total_cases"], cfg, data[cfg]["total_cases"]))
        common = set(ref["blocks"]) & set(data[cfg]["blocks"])
        mism[cfg] = sorted(b for b in common if ref["blocks"][b] != data[cfg]["blocks"][b])
    union = sorted(set(b for bl in mism.values() for b in bl))
    candidates = []     # violation dicts awaiting confirmation
    class_counts = {}
    differing = {}
    if union:
        scratch = tempfile.mkdtemp(prefix="verif-c18-")
        try:
            bf = os.path.join(scratch, "blocks.txt")
            with open(bf, "w") as fh:
                fh.write("\n".join(str(b) for b in union) + "\n")
            recd = os.path.join(scratch, "rec")
            os.makedirs(recd)
            ts = time.time()
            res = vlib.run_shards(exes[C18_REF], ["--tier", tier, "--config", C18_REF, "--blocks-file", bf, "--rec-out", recd],
                                  vlib.NPROC, max(120, deadline))
            if any(j is None for rc, j, tail in res):
                return fail("record pass of the reference build failed: %s" % [t[-300:] for rc, j, t in res if j is None][:1])
            stage_info.append({"stage": "records", "config": C18_REF, "blocks": len(union), "wall_s": round(time.time() - ts, 1)})
            for cfg, bl in mism.items():
                if not bl:
                    continue
                ts = time.time()
                sf = os.path.join(scratch, "sel-%s.txt" % cfg)
                with open(sf, "w") as fh:
                    fh.write("\n".join(str(b) for b in bl) + "\n")
                res = vlib.run_shards(exes[cfg], ["--tier", tier, "--config", cfg, "--ref", C18_REF, "--blocks-file", bf,
                                                  "--sel-file", sf, "--rec-in", recd], vlib.NPROC, max(120, deadline))
                nd = 0
                for rc, j, tail in res:
                    if j is None:
                        return fail("diff pass of configuration %s failed rc=%s: %s" % (cfg, rc, tail[-400:]))
                    for k, n_ in j.get("class_counts", {}).items():
                        class_counts[k] = class_counts.get(k, 0) + n_
                    for k, n_ in j.get("counters", {}).items():
                        if k.startswith("differing_cases:"):
                            differing[cfg + ":" + k[16:]] = differing.get(cfg + ":" + k[16:], 0) + n_
                            nd += n_
                    candidates.extend(j.get("violations", []))
                stage_info.append({"stage": "diff", "config": cfg, "mismatching_blocks": len(bl), "differing_cases": nd,
                                   "wall_s": round(time.time() - ts, 1)})
                if nd == 0:
                    # digests differed but no case does: only possible when cases aborted in one of the builds
                    if not (data[cfg]["aborts"] or ref["aborts"]):
                        return fail("blocks %s differ between %s and %s but no case does (nondeterministic observation?)" % (bl[:5], C18_REF, cfg))
        finally:
            shutil.rmtree(scratch, ignore_errors=True)

    # ------------------------------------------------------------------ confirmation by replaying single cases
    confirmed = []
    unconfirmed = 0

    def with_witness(w, fn):
        fd, wp = tempfile.mkstemp(prefix="verif-c18-w-", suffix=".json")
        with os.fdopen(fd, "w") as fh:
            json.dump(w, fh)
        try:
            return fn(wp)
        finally:
            os.unlink(wp)

    # (1) aborts: class C18/abort/<config>/<site>
    for cfg in cfgs:
        seen = {}
        for ab in sorted(data[cfg]["aborts"], key=lambda x: (x.get("size", 0), x["ordinal"])):
            cls = "C18/abort/%s/%s" % (cfg, ab["site"])
            class_counts[cls] = class_counts.get(cls, 0) + 1
            if seen.get(cls, 0) >= 2:
                continue
            w = ab["witness"]
            r = with_witness(w, lambda wp: [_c18_replay_once(exes[cfg], cfg, wp) for _ in range(2)])
            if all(x["abort"] for x in r):
                seen[cls] = seen.get(cls, 0) + 1
                others = with_witness(w, lambda wp: {c: _c18_replay_once(exes[c], c, wp) for c in cfgs if c != cfg})
                ok_in = [c for c, x in others.items() if not x["abort"]]
                confirmed.append({"class": cls, "size": ab.get("size", 0), "kind": "cfgdump", "witness": w,
                                  "summary": "%s aborts in the %s build (%s, signal %s) and returns normally in %s; stderr: %s"
                                             % (ab["show"], cfg, ab["site"], ab["signal"], ",".join(ok_in) or "no other build",
                                                ab.get("stderr", "").strip().replace("\n", " | ")[-300:]),
                                  "replay_output": r[0]["text"][-600:]})
            else:
                unconfirmed += 1
                notes.append("abort candidate %s did not reproduce on replay: discarded" % cls)
    # (2) divergences: class C18/diff/<ref>-vs-<config>/<section>/<groups>
    seen = {}
    for v in sorted(candidates, key=lambda x: (x.get("size", 0), x["witness"].get("ordinal", 0))):
        cls = v["class"]
        if seen.get(cls, 0) >= 2:
            continue
        w = dict(v["witness"])
        cfg = w["config"]
        r = with_witness(w, lambda wp: [(_c18_replay_once(exes[C18_REF], C18_REF, wp), _c18_replay_once(exes[cfg], cfg, wp)) for _ in range(2)])
        if all((not x["abort"]) and (not y["abort"]) and x["hash"] and y["hash"] and x["hash"] != y["hash"] for x, y in r):
            seen[cls] = seen.get(cls, 0) + 1
            xa, xb = _c18_first_diff(r[0][0]["text"], r[0][1]["text"])
            w["ref_hash"] = r[0][0]["hash"]
            confirmed.append({"class": cls, "size": v.get("size", 0), "kind": "cfgdump", "witness": w,
                              "summary": "%s: %s build gives %s, %s build gives %s" % (w.get("show"), C18_REF, xa, cfg, xb),
                              "replay_output": ("--- %s\n%s\n--- %s\n%s" % (C18_REF, r[0][0]["text"][-280:], cfg, r[0][1]["text"][-280:]))})
        elif any(x["abort"] or y["abort"] for x, y in r):
            pass  # reported through the abort path of the build that aborts
        else:
            unconfirmed += 1
            notes.append("candidate %s did not reproduce on replay: discarded as harness nondeterminism" % cls)

    # ------------------------------------------------------------------ evidence
    total_cases = sum(d["cases"] for d in data.values())
    distinct_n = max(len(ref["distinct"]), ref["distinct_n"])
    cov = {
        "evaluations": total_cases,
        "distinct_nontrivial": min(distinct_n, ref["nontrivial"]) if ref["nontrivial"] else distinct_n,
        "nontrivial_evaluations": ref["nontrivial"],
        "rule": rule,
        "exhaustive": exhaustive,
        "configurations": cfgs,
        "reference_configuration": C18_REF,
        "cases_per_configuration": ref["total_cases"],
        "blocks_per_configuration": ref["total_blocks"],
        "block_size": 4096,
        "sections": ref["sections"],
        "counters": {"cases_executed:" + c: data[c]["cases"] for c in cfgs},
        "mismatching_blocks": {c: len(b) for c, b in mism.items()},
        "differing_cases_by_config_and_section": differing,
        "aborted_cases": {c: len(data[c]["aborts"]) for c in cfgs},
        "violation_class_counts": class_counts,
        "unconfirmed_candidates": unconfirmed,
        "stages": stage_info,
        "notes": notes[:20],
        "distinct_is_lower_bound": bool(ref["capped"]),
        "samples": [{"section": s["name"], "cases": s["size"], "first_case": s.get("first_case"), "last_case": s.get("last_case")}
                    for s in (ref["sections"] or [])][:24],
    }
    return vlib.finish(prop, tier, C18_LEVEL, cov, t0, confirmed, assumptions)


simple("C18", C18_LEVEL,
       "one indexable enumeration run on 5 builds of the library (rel = SSE2 baseline, ssse3, avx512bw+vl, dev = "
       "ADA_DEVELOPMENT_CHECKS, amalg = amalgamate.py output of the working tree): (a) the C01 E-prod slot menus with hosts/paths "
       "of 1,15,16,17,31,32,33,48 bytes added (thorough: pad/userinfo/port/fragment menus cut to 2/5/6/4 entries to fit 5 builds "
       "in the budget); (b) E-byte sweeps: 23 delimiter / tab / newline / forbidden-host / upper-case / non-ASCII "
       "bytes at every offset of runs of every length 1..70 in 30 parse and setter templates (host, path, query, fragment, "
       "userinfo, opaque path, relative with base), every ASCII byte and UTF-8 lead/continuation byte at block-edge offsets, "
       "bracket-skip sweeps re-entering the kernels at location > 0; (c) all strings <= 8 (quick) / 9 (thorough) over {0,1,2,5,9,.} as http hosts, "
       "<= 7/8 through set_host/set_hostname, dotted shapes from a digit-class segment menu (3, 4, 5 segments, 0-2 trailing dots) "
       "in 4 contexts, single-byte substitutions in 7 shapes; (d) all strings <= 8 over {0,1,f,:,.} in brackets (special and "
       "non-special, parse and setters), all ':'-joined sequences of <= 9 pieces; (e) setter histories of depth 2 over the shared "
       "menu on the shared initial URLs, both URL types; (f) IDNA strings <= 3/4 over 12 code points, url_search_params "
       "histories of depth <= 2, 23 URLPattern constructions x 2 x 18 inputs. A case's observation = success flags / return "
       "values, href, every getter, host_type, scheme type, presence flags, validate(), offsets, can_parse, for both URL types; "
       "non-trivial = something succeeded; distinct = distinct observation hashes in the reference build",
       ["oracle: identical 64-bit block digests (4096 cases per block) in all configurations, and no abort / signal / hang in any; "
        "digest mismatches are resolved to single cases and confirmed by replay in fresh processes of both builds",
        "the avx512 configuration needs a CPU with avx512bw+avx512vl (skipped with exhaustive:false otherwise)",
        "x86-64 only: NEON / LSX / RVV kernels are not compiled here",
        "inputs are valid UTF-8"],
       lambda tier: [{"name": "digest", "driver": "drv_cfgdump", "config": c, "sources": C18_SRC, "args": [], "kinds": ["cfgdump"]}
                     for c in C18_CONFIGS],
       custom=c18_custom, configs=C18_CONFIGS, deadline={"quick": 600, "thorough": 2400})

META["C18"] = {
    "engine": "cfgdump (one dump driver x 5 library builds) + digest comparison / record diff / replay orchestrator",
    "design_ref": "3/C18",
    "technique": "bounded exhaustive enumeration executed on five builds of the real library; differential oracle between builds "
                 "(block digests over complete observation tuples, bisected to single cases); every ADA_ASSERT compiled in (dev build) "
                 "and attributed to the input in flight",
    "text": "The same deterministic enumeration (E-prod menus, byte-at-every-offset sweeps over the SIMD kernels and their tails, all "
            "short IPv4-/IPv6-alphabet hosts, depth-2 setter histories, IDNA / search-params / URLPattern menus) is executed in the "
            "SSE2, SSSE3, AVX-512, development-checks and amalgamated builds; all observations must hash identically block by block "
            "and no build may abort. Mismatching blocks are resolved to the individual differing cases and each reported class is "
            "confirmed by replaying one case alone in both builds.",
    "note": "Reference build = rel. Bounded by the stated menus/lengths; x86-64 kernels only. A 64-bit hash collision could hide a "
            "difference (probability ~2^-64 per case).",
}
