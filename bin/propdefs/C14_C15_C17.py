# C14, C15 (URLPattern) and C17 (C API) stage specs

PATTERN_SRC = ["harness/drv_pattern.cpp"]


def _urlpattern_vectors():
    """WPT urlpatterntestdata.json of the tree under test -> line format (tools/urlpattern2lines.py), cached under
    build/vectors/<hash of json + converter>. Returns the path, or None (then the driver reports exhaustive:false)."""
    import hashlib
    import subprocess
    src = os.path.join(vlib.REPO, "tests", "wpt", "urlpatterntestdata.json")
    tool = os.path.join(vlib.VERIF, "tools", "urlpattern2lines.py")
    if not (os.path.exists(src) and os.path.exists(tool)):
        return None
    with open(src, "rb") as a, open(tool, "rb") as b:
        hh = hashlib.sha256(a.read() + b"\0" + b.read()).hexdigest()[:16]
    d = os.path.join(vlib.BUILD, "vectors", hh)
    out = os.path.join(d, "urlpattern.lines")
    if not os.path.exists(out):
        os.makedirs(d, exist_ok=True)
        tmp = out + ".%d.tmp" % os.getpid()
        r = subprocess.run(["/usr/bin/python3", tool, src, tmp], cwd="/", stdout=subprocess.PIPE, stderr=subprocess.STDOUT)
        if r.returncode != 0 or not os.path.exists(tmp):
            return None
        os.replace(tmp, out)
    return out


def _pattern_stage(prop, tier):
    # the driver stops cleanly at --deadline (exhaustive:false, exit 0), before check.py's hard kill (300 s / 3600 s)
    args = ["--prop", prop, "--deadline", "2400" if tier == "thorough" else "200"]
    if prop == "C15":
        vec = _urlpattern_vectors()
        if vec:
            args += ["--vectors", vec]
    return {"name": "pattern-enum", "driver": "drv_pattern", "config": "rel", "sources": PATTERN_SRC + REF_SRC,
            "flags": REF_FLAGS, "args": args, "kinds": ["pattern"]}

simple("C14", "exploration",
       "patterns: every single component x the full per-component pattern menu (16-20 values), every unordered pair of components "
       "x every pair of menu values, every unordered triple x a 3-value (quick) / 10-value (thorough) menu, each as init dictionary, "
       "dictionary + baseURL, absolute constructor string and (relative) constructor string + base argument, ignoreCase in "
       "{false,true}; inputs: 245 URL strings (+-base) and init dictionaries spanning match / near-miss for every menu entry; each "
       "(pattern, input) executed on the real code in both compilations; non-trivial = exec() returned a result; distinct = distinct "
       "(pattern, inputs, groups) tuples",
       ["oracle: test()==exec().has_value()==match(); exec inputs == ada::parse / refurl components (refpattern url-type "
        "canonical values for dictionary inputs); every result identical when all components are forced to REGEXP mode "
        "(ADA_URL_ADA_VERIF hook)", "std::regex is the only regex provider"],
       lambda tier: [_pattern_stage("C14", tier)],
       needs_models=True)

simple("C15", "model_checking",
       "literal component values: E-tok over per-component alphabets of 14-21 tokens (k<=4 quick / 5 thorough; lengths <k with 7 bases + none, "
       "length k without bases), E-byte (every ASCII byte and 2/3/4-byte UTF-8 sequences at 6 positions) "
       "against char_class_table, IPv4-shaped hostnames (<=5/6 tokens) + 100 IPv6/IDNA shapes, 36 ports x 12 protocols, 33 dot-segment "
       "paths x 5 protocol contexts, each as init dictionary +-baseURL and through exec() on the all-wildcard pattern (url-type "
       "values); all constructor strings of <=4/5 tokens over 18 tokens x 3 base arguments; the WPT urlpatterntestdata.json vectors. "
       "Revision-sensitive values are excluded and counted (protocol starting with C0/space, port whose digits buffer is empty, ' in "
       "search, \\ in a non-opaque pathname). states = distinct canonical outputs, transitions = constructions/executions, each one "
       "a model trace replayed on the implementation",
       ["oracle: refpattern = URLPattern Standard canonicalisation over refurl (state override) + Standard's encode sets",
        "std::regex is the only regex provider; vectors needing unsupported regex features are skipped as in the project's driver"],
       lambda tier: [_pattern_stage("C15", tier)],
       needs_models=True)

simple("C17", "exploration",
       "san build (ASan+UBSan+LSan): (i) (input, base) x setter histories of depth <=D over the shared menu, C handle and C++ "
       "url_aggregator in lockstep, every url function compared (direct and via ada_copy); (ii) failed-parse handles and copies; "
       "(iii) search-params/strings/iterator handles: every operation sequence of depth <=D; (iv) idna/can_parse/max-length; "
       "(iv-b) every limit 0..48 x 6 initial URLs x every history of <=2 setter calls (27 values) on a handle parsed under the limit; "
       "a components pointer taken after the parse (and from every handle of a copy chain) must keep reading the live offsets; "
       "function list read from include/ada_c.h; non-trivial = parse succeeded / list non-empty; distinct = distinct observation tuples",
       ["oracle: the C++ API (differential), ASan/UBSan abort, LSan leak check after every batch"],
       lambda tier: [{"name": "capi-enum", "driver": "drv_capi", "config": "san", "sources": ["harness/drv_capi.cpp"],
                      "args": [], "kinds": ["capi"]}])

META["C17"] = {
    "engine": "capi-enum (ASan/UBSan/LSan build)", "design_ref": "3/C17",
    "technique": "bounded exhaustive enumeration of operation histories on C handles executed in lockstep with the C++ objects they wrap (differential oracle), sanitizer build as memory oracle",
    "text": "Every url function is compared with its C++ counterpart on every (input, base) x setter history of the stated depth, directly and through ada_copy; a components pointer taken earlier must keep reading what the C++ reference reads; the same comparison is made under every length limit 0..48 on histories of up to two setter calls; failed-parse handles must answer null/empty/false/0; every search-params / strings / iterator operation sequence up to the stated depth is run with every handle freed exactly once under ASan+LSan; the function list is read from ada_c.h so an uncovered function is reported.",
    "note": "Oracle is the C++ API (tied to the Standard by C01/C03/C12). Bounded by the menus and depth in evidence.",
}

META["C14"] = {
    "engine": "pattern-enum (rel build with the ADA_URL_ADA_VERIF force-REGEXP hook) + refurl/refpattern", "design_ref": "3/C14",
    "technique": "bounded exhaustive enumeration of (pattern, options, input, base) tuples executed on the real library; every pattern is compiled twice (shortcuts on / every component forced to REGEXP) and the two compilations, test(), exec() and match() are compared with each other and with what the input denotes (ada::parse, refurl, URLPattern Standard 'process a URLPatternInit' over refurl)",
    "text": "Every single component with the full per-component pattern menu, every pair of components with every pair of menu values and every triple over a reduced menu is constructed in four forms (dictionary, dictionary + baseURL, absolute constructor string, relative constructor string + base) with ignoreCase off and on; each constructed pattern is run on 245 inputs (URL strings with and without base, init dictionaries, error shapes). test() must equal exec().has_value() and match(); result.inputs must be the argument list; the eight input fields must be the components of the URL the input denotes (an input that denotes no URL never matches); answers, input fields and captured groups must be identical in the forced-REGEXP compilation, per pattern and per component (so an earlier failing component cannot hide a later one).",
    "note": "One regex provider (std::regex). Dictionary inputs are judged by refpattern (validated together with ada on the WPT URLPattern vectors by C15). Four genuine deviations are registered in known_findings.d/C14.json (relative string input parsed against a blank base, second '?' strip, opaque pathname canonicaliser, second ':' strip). Port values that leave the port state's buffer empty are not in the input menu (URL Standard revisions differ).",
}

META["C15"] = {
    "engine": "pattern-enum + refpattern (URLPattern Standard canonicalisation over refurl/refidna) + WPT urlpatterntestdata.json", "design_ref": "3/C15",
    "technique": "bounded exhaustive enumeration of literal component values and constructor strings executed on the real constructor and on exec() with init dictionaries, in lockstep with a reference transcription of the URLPattern Standard's canonicalisation algorithms written over the reference URL parser with state override (model traces replayed on the implementation)",
    "text": "For protocol, username, password, hostname, port, pathname (special, opaque, file, empty-protocol contexts), search and hash every literal value of the token and byte spaces is constructed as an escaped pattern (alone and with each of 7 base URLs) and also passed as an init dictionary to exec() on the all-wildcard pattern: construction/processing must fail exactly when the reference fails, the pattern string must be the escaped canonical value, the url-type input fields must be the canonical values, and the wildcard group must capture them. Constructor strings over an 18-token alphabet are parsed by the reference constructor string parser and judged the same way; the (protocol, port) product covers default-port elision. The 369 WPT entries are run (construction outcome, pattern strings, match, inputs, groups), skipping only those needing regex features std::regex lacks.",
    "note": "Trusted: refpattern/refurl/refidna (refurl/refidna validated on WPT before each run; refpattern and ada both reproduce the WPT URLPattern vectors). Sub-spaces on which revisions of the Standards differ are excluded and counted, never judged: protocol values starting with C0 control/space, ports whose digit buffer is empty under the state override, ' in search and \\ in non-opaque pathnames (special vs non-special dummy URL). Seven root causes are registered in known_findings.d/C15.json.",
}
