# C14, C15 (URLPattern) and C17 (C API) stage specs

PATTERN_SRC = ["harness/drv_pattern.cpp"]

simple("C14", "exploration",
       "patterns: every pair of components x every pair of values from the per-component pattern menu (singles in quick), as init "
       "dictionaries and constructor strings, +-baseURL, ignoreCase in {false,true}; inputs: URL strings (+-base) and init "
       "dictionaries spanning match / near-miss for every menu entry; each (pattern, input) executed on the real code; "
       "non-trivial = pattern constructed; distinct = distinct (pattern, input, result) tuples",
       ["oracle: test()==exec().has_value()==match(); exec inputs == ada::parse / refurl components (refpattern url-type "
        "canonical values for dictionary inputs); every result identical when all components are forced to REGEXP mode "
        "(ADA_URL_ADA_VERIF hook)", "std::regex is the only regex provider"],
       lambda tier: [{"name": "pattern-enum", "driver": "drv_pattern", "config": "rel", "sources": PATTERN_SRC + REF_SRC,
                      "flags": REF_FLAGS, "args": ["--prop", "C14"], "kinds": ["pattern"]}],
       needs_models=True)

simple("C15", "model_checking",
       "literal component values (E-tok per-component alphabets, E-byte over every byte value against char_class_table, IPv4-shaped "
       "hostnames, dot segments, ports x protocols) as init dictionaries +-baseURL and constructor strings; url-type values observed "
       "through exec() on the all-wildcard pattern; WPT urlpatterntestdata.json vectors; states = distinct canonical outputs, "
       "transitions = constructions, each one a model trace replayed on the implementation",
       ["oracle: refpattern = URLPattern Standard canonicalisation over refurl (state override) + Standard's encode sets",
        "std::regex is the only regex provider; vectors needing unsupported regex features are skipped as in the project's driver"],
       lambda tier: [{"name": "pattern-enum", "driver": "drv_pattern", "config": "rel", "sources": PATTERN_SRC + REF_SRC,
                      "flags": REF_FLAGS, "args": ["--prop", "C15"], "kinds": ["pattern"]}],
       needs_models=True)

simple("C17", "exploration",
       "san build (ASan+UBSan+LSan): (i) (input, base) x setter histories of depth <=D over the shared menu, C handle and C++ "
       "url_aggregator in lockstep, every url function compared (direct and via ada_copy); (ii) failed-parse handles and copies; "
       "(iii) search-params/strings/iterator handles: every operation sequence of depth <=D; (iv) idna/can_parse/max-length; "
       "function list read from include/ada_c.h; non-trivial = parse succeeded / list non-empty; distinct = distinct observation tuples",
       ["oracle: the C++ API (differential), ASan/UBSan abort, LSan leak check after every batch"],
       lambda tier: [{"name": "capi-enum", "driver": "drv_capi", "config": "san", "sources": ["harness/drv_capi.cpp"],
                      "args": [], "kinds": ["capi"]}])

META["C17"] = {
    "engine": "capi-enum (ASan/UBSan/LSan build)", "design_ref": "3/C17",
    "technique": "bounded exhaustive enumeration of operation histories on C handles executed in lockstep with the C++ objects they wrap (differential oracle), sanitizer build as memory oracle",
    "text": "Every url function is compared with its C++ counterpart on every (input, base) x setter history of the stated depth, directly and through ada_copy; failed-parse handles must answer null/empty/false/0; every search-params / strings / iterator operation sequence up to the stated depth is run with every handle freed exactly once under ASan+LSan; the function list is read from ada_c.h so an uncovered function is reported.",
    "note": "Oracle is the C++ API (tied to the Standard by C01/C03/C12). Bounded by the menus and depth in evidence.",
}
