# C06 (IDNA == UTS #46 / Unicode 17) and C16 (IDNA stable under equivalent spellings): one driver, harness/drv_idna.cpp

IDNA_SRC = ["harness/drv_idna.cpp"]


def _idna_stage(prop, tier):
    return {"name": "idna-enum", "driver": "drv_idna", "config": "rel", "sources": IDNA_SRC + REF_SRC, "flags": REF_FLAGS,
            "args": ["--prop", prop, "--wpt", os.path.join(vlib.REPO, "tests", "wpt"), "--tools", os.path.join(vlib.VERIF, "tools"),
                     "--deadline", "1500" if tier == "thorough" else "200"],
            "kinds": ["idna"]}


simple("C06", "model_checking",
       "seven stages, each exhaustive on its finite domain, every case executed on the real library and compared with refidna: "
       "(1) ada::idna::map on ALL 1,114,112 code points + 0x110000 + 0xFFFFFFFF, alone and in context, vs the Unicode 17 "
       "IdnaMappingTable; (2) NFC: ada::idna::normalize vs textbook NFC on every scalar value, every ordered pair C1 x C2 (C1 = code "
       "points with a canonical decomposition or starting a composition pair + Hangul L / every LV / some LVT, C2 = every ccc!=0 code "
       "point + composition seconds + Hangul V/T) and all strings <=3 (quick) / <=4 (thorough) over a 73-element alphabet (one valid "
       "representative per combining class in use, Hangul L/V/T/LV/LVT, exclusion, singleton, non-starter decompositions, blockers), "
       "judged twice: directly, and 'as used' = through to_ascii on the strings the mapping step leaves unchanged; (3) Punycode: "
       "utf32_to_punycode on all strings <=5/6 over 11 code points, punycode_to_utf32 + verify_punycode on all strings <=6/8 over "
       "{a,b,z,0,9,-,A,_}, decode(encode), overflow families (h basic code points + one or two code points at the top of the range for h=0..4300, "
       "digit runs <=18) and a guard-boundary family of the decoder (m = 0..8 maximal digits followed by EVERY digit value and every pair of digit "
       "values, alone and after 'a-' / 'ab-': 35,964 strings, also as xn-- labels through to_unicode and to_ascii), vs RFC 3492 "
       "with maxint in {2^31-1, 2^32-1, 2^62}; (4) composed to_ascii / to_unicode on all strings <=4 (quick) / <=4 over the full and 5 "
       "over a 19-token alphabet (thorough) over a 34-token alphabet Sigma_idna (one code point per Bidi class RFC 5893 distinguishes, "
       "ZWJ, ZWNJ, virama, Joining_Type D/L/R/T/U incl. N'Ko, Mongolian, Adlam, marks of two classes, the four dots, 'xn--', '-', upper case, "
       "sharp s, final sigma, an ignored, a disallowed, a fullwidth, a precomposed letter, two Unicode 14 code points) and every ACE label "
       "xn--<digits<=5/6> alone and next to a non-ASCII and an RTL label; (4b) label sequences: every domain of 2 and 3 labels (thorough: +4 over a "
       "14-label sub-menu) over a menu of 22 WHOLE labels (valid ACE labels incl. R and AL ones, ACE labels rejected each for a different reason - "
       "ASCII-only decode, non-NFC decode, invalid digit, leading mark, mapped decode, xn-- decode, disallowed decode, Bidi-breaking decode -, "
       "upper-case ACE, plain ASCII, raw non-ASCII, empty label) through to_ascii, to_unicode, parse and set_hostname: state carried from one "
       "label to the next; plus a position sweep (0..70 ASCII padding bytes, dotted or <=40 inside the label, before / between / after 8 kinds of "
       "non-ASCII material: 2,688 domains); (5) hostname of parse(\"https://<domain>/\") and set_hostname, both "
       "URL types, raw and percent-encoded, vs refurl; (5b) exhaustive single-code-point round trip: every IDNA-valid code point c as the labels {c}, {a c}, {c a} through to_ascii and back "
       "through to_unicode, and the UTF-8/UTF-32 helpers against each other on every scalar value (alone, x2, x3, between ASCII); (6) per-code-point table audits through is_label_valid verdicts on probe labels and normalize() output on mark pairs: "
       "combining marks, virama, joining types, canonical combining class vs Unicode 17, Bidi class vs Unicode 15.1 on 15.1-assigned code "
       "points; (7) IdnaTestV2.json + toascii.json vectors. states = distinct results, transitions = evaluations, every evaluation is one "
       "model trace replayed on the implementation",
       ["oracle: refidna (UTS #46 non-transitional, CheckBidi, CheckJoiners, no CheckHyphens/STD3/DNS length; NFC; RFC 3492; RFC 5892 App. A; "
        "RFC 5893) over vendored Unicode 17.0 data (IdnaMappingTable, Joining_Type, ccc, decompositions, compositions, marks), validated on "
        "IdnaTestV2.json/toascii.json before every run; refurl for the host parser",
        "Bidi_Class data is Unicode 15.1: a case whose verdict depends on the class of a code point unassigned in 15.1 is not judged (counted)",
        "ToUnicode is judged on lower-case ASCII domains (what the library produces); a label that passes criteria 1-8 and fails only the Bidi "
        "rule because of *other* labels is accepted either way",
        "punycode_to_utf32 / verify_punycode are judged directly on lower-case digits only (they are only called on mapped labels); upper-case "
        "digits are judged through to_ascii; decoded values outside the scalar range are not judged directly (RFC 3492 does not bound them)",
        "a disagreement is attributed to a listed root cause only if the model with exactly that deviation switched on reproduces ada's output; "
        "the deviation list holds only defects the pinned tree still has (repaired ones are removed, so a recurrence is reported)",
        "ada::idna::is_already_nfc is a shortcut hint and is not judged; only normalize()/to_ascii()/to_unicode() results are"],
       lambda tier: [_idna_stage("C06", tier)],
       needs_models=True)

simple("C16", "exploration",
       "for every domain x of <=3 (quick) / <=4 (thorough) tokens over the 34-token Sigma_idna of C06 and every 1-2 code point label over all "
       "2081 code points with a canonical decomposition (+ Hangul) x (one valid mark per combining class quick / every valid non-starter and "
       "every decomposable thorough): the orbit of x generated structurally - all 2^n ASCII case variants (n<=4), fullwidth<->ASCII letters, "
       "each of the four dots <-> the others, each ignored code point U+00AD U+200B U+FE0F U+E0100 inserted at every position, and the closure "
       "(<=48 members) under local canonical rewrites between IDNA-valid code points (decompose one character, compose an adjacent pair, swap "
       "adjacent marks of different non-zero class, NFD, NFC), and the same for every 2-label (quick: + 3 over 14 labels; thorough: 2-3 over all 22) "
       "sequence of C06's whole-label menu, and for a position sweep of 2,688 domains (0..70 ASCII padding bytes before / between / after a "
       "precomposed or decomposed letter, a fullwidth letter, an ideographic stop, an upper-case non-ASCII letter, a soft hyphen, a 3- and a "
       "4-byte code point; block/alignment dependence of the transcoder); a mapped code point <-> its mapping is a further generator; every member must give the same to_ascii result as x or fail with it, and the "
       "same hostname through ada::parse; to_ascii(to_ascii(x)) = to_ascii(x); to_ascii(to_unicode(to_ascii(x))) = to_ascii(x) for non-ASCII x; "
       "results lower-case ASCII; non-trivial = x accepted; distinct = distinct results",
       ["oracle: metamorphic (the library against itself); refidna is used only as a filter: a pair is judged only when UTS #46 itself gives both "
        "spellings the same result (the URL Standard's all-ASCII carve-out makes 'xn--a' and its fullwidth spelling differ legitimately)",
        "canonical rewrites are restricted to code points the mapping step leaves unchanged, because UTS #46 maps before it normalises",
        "a violation is named after the C06 root cause that explains the member ada converts wrongly"],
       lambda tier: [_idna_stage("C16", tier)],
       needs_models=True)

META["C06"] = {
    "engine": "idna-enum (drv_idna, lockstep with refidna/refurl)", "design_ref": "3/C06",
    "technique": "bounded exhaustive enumeration per pipeline stage (all code points; all pairs of the NFC-relevant sets; all strings up to a "
                 "length over stated alphabets) executed on the real library and compared with an independent reference model",
    "text": "Mapping is compared on every code point; NFC on every code point, 2.9 M pairs and all short strings over a structural alphabet, "
            "both directly and as used inside to_ascii; Punycode against RFC 3492 incl. overflow; the composed to_ascii/to_unicode on every "
            "string of <=4/5 tokens over a 34-token alphabet; the same through the URL parser and set_hostname; ada's effective per-code-point "
            "tables are recovered through probe labels and audited against Unicode 17 (Bidi: 15.1); WPT IDNA vectors.",
    "note": "Disagreements are attributed to a root cause by re-running the model with one deviation switched on; unattributed ones are "
            "reported as violations. Bidi data is Unicode 15.1 (newest offline).",
}
META["C16"] = {
    "engine": "idna-enum (drv_idna, metamorphic)", "design_ref": "3/C16",
    "technique": "bounded exhaustive enumeration of domains and of their structurally generated equivalence orbits, executed on the real "
                 "library; metamorphic oracle",
    "text": "Every orbit member (case, fullwidth, dots, ignored code points, canonical rewrites) must convert like the domain itself, also "
            "through ada::parse; idempotence; ToUnicode round trip; lower-case ASCII results.",
    "note": "Pairs on which UTS #46 itself is not invariant (ASCII carve-out) are filtered out with the reference model and counted.",
}
