# C10: hosts are classified and canonicalised per the Standard; host kind is truthful

HOST_SRC = ["harness/drv_host.cpp"]


def _c10_stages(tier):
    enum_deadline = "3000" if tier == "thorough" else "150"
    bfs_deadline = "600" if tier == "thorough" else "60"
    common = {"driver": "drv_host", "config": "rel", "sources": HOST_SRC + REF_SRC, "flags": REF_FLAGS}
    return [
        dict(common, name="host-bfs", args=["--stage", "bfs", "--threads", str(vlib.NPROC), "--deadline", bfs_deadline],
             replay_args=["--stage", "bfs"], kinds=["host-hist"], shards=1),
        dict(common, name="host-enum", args=["--stage", "enum", "--deadline", enum_deadline], replay_args=["--stage", "enum"],
             kinds=["host"]),
    ]


def _c10_post(cov, acc, tier):
    c = acc["counters"]
    distinct = len(acc["distinct"]) + acc["distinct_overflow"]
    # states = distinct (hostname, kind) results of the enumerations + BFS states + the identity-checked IPv4 values
    cov["states"] = distinct + max(c.get("ipv4_identity_values", 0), c.get("ipv4_identity_values_quick_set", 0))
    cov["transitions"] = acc["evaluations"]
    cov["traces_validated_against_impl"] = acc["evaluations"]


simple("C10", "model_checking",
       "(1) IPv4 by value through parse(\"http://a.b.c.d/\"), both URL types: thorough = ALL 2^32 dotted-decimal addresses (result must be the "
       "identity text with host_type IPV4; the model's IPv4 parser+serialiser are run on 2^24 of the texts, one d per (a,b,c)); both tiers: every "
       "pair of octet positions x all 2^16 value pairs with the other octets in {0,1,99,255} (6.3M addresses, model run on each), every <=3-digit "
       "string (leading zeros, >255) at each octet position +- trailing dot, and every address of a strided subset covering all 2^16 high and all "
       "2^16 low halves (every 17th in quick) as one decimal / 0x / 0X / 0-octal number and in 2-, 3-, 4-part mixed-radix forms. "
       "(2) IPv4 by form: every spelling of 1..3 parts, each part from 19 values x {decimal, 0-octal, 0x, 0X+upper digits, 0x+upper digits, extra "
       "leading zeros (decimal and hex), non-digit suffix} + {bare 0x/0X, empty, x, g, 08, 09, percent-encoded digits, fullwidth digits, +1, -1} "
       "(176 part strings); thorough adds every 4-part spelling over 19 values x {decimal, 0-octal, 0x, 0X+upper digits} + specials (90 strings); "
       "5 parts over a 14-string menu; all +- trailing dot; compared on success/failure, address, serialisation and host_type for http parse "
       "(both types); reduced products (<=2 parts full menu, 3 parts over 49 strings, 4 parts over 14 in thorough) additionally through foo:// "
       "(opaque host stays as is), set_host and set_hostname on http/foo/file URLs; <=2 parts behind credentials+port, in file:/ws: URLs and via a "
       "base. (3) IPv6: every sequence of <=5 (quick) / <=8 (thorough) pieces over {0,1,a,ffff,00ab,abcde,g,empty} x 14 tails (none + 13 IPv4 tails: "
       "valid, >255, leading zero, 3/5 parts, trailing dot, empty part, hex, 4 digits), 6 / 9 pieces without tail; '::' inserted in every subset of "
       "<=2 slots for <=4/6 pieces of the full alphabet x tails and for up to 8/9 pieces of {0,1,ffff,00ab} (quick: tails up to 6 pieces); upper "
       "and lower case; acceptance + value + compressed lower-case serialisation + host_type; reduced product through foo://, set_host, "
       "set_hostname; bracket-level malformations; serialise->parse identity on all 256 zero/non-zero patterns x 3 value assignments x 3 "
       "spellings. (4) host-kind truthfulness: explicit-state BFS from 17 bases x 24 relative inputs (every pair that inherits or replaces a host: "
       "IPv4, IPv6, domain, file, empty-host and opaque-host bases) over a set_host/set_hostname/set_href/set_protocol/set_port/set_pathname menu "
       "(43 ops, depth 3 quick / 75 ops, fixpoint thorough), url + url_aggregator + refurl record in lockstep; in every state host_type == kind "
       "recomputed from hostname text and scheme class == model kind == kind of the re-parsed href. (5) has_valid_domain() on label lengths "
       "{0,1,62,63,64}^(1..4) and all 4..6-label names of total length 250..257 over {1,2,59..64}, +- trailing dot, 4 URL shapes + set_hostname. "
       "states = distinct (hostname, kind) results + BFS states + identity-checked IPv4 values; transitions = ada calls compared with the model; "
       "non-trivial = the Standard accepts the host",
       ["oracle: refurl IPv4/IPv6 parsers and serialisers on wide integers, host parser, URL parser and setters (validated on the WPT "
        "vectors before every run) + refidna; hot loops call the model's host-level functions and every candidate is re-judged by the full "
        "refurl::parse before being reported",
        "the numeric address is observed through its serialisation (ada exposes no integer address)",
        "has_valid_domain is judged against the rule as ada documents it (checkers.h: labels 1..63, <=253 characters or 254 with the final dot, "
        "non-empty); not judged: the name '.' alone and IP-literal hosts, which the documentation does not address",
        "in the BFS a difference from the model outside hostname/host kind is C03's business: counted, not judged, not expanded"],
       _c10_stages, needs_models=True, post=_c10_post, deadline={"quick": 300, "thorough": 3600})

META["C10"] = {
    "engine": "host-enum + host-bfs (drv_host)", "design_ref": "3/C10",
    "technique": "bounded exhaustive enumeration (all 2^32 IPv4 values; Cartesian products of part/piece spellings; explicit-state BFS over host-changing histories) with an independent reference model of the WHATWG host parser as oracle",
    "text": "Every enumerated IPv4/IPv6 spelling is parsed by ada::url and ada::url_aggregator (parse with special and non-special schemes, set_host, set_hostname) and compared with the refurl model on acceptance, canonical hostname and host kind; every state of a BFS over inherit-from-base parses and host-changing setters must report the kind recomputed from its serialised hostname; has_valid_domain() must implement the documented DNS length rule on every enumerated label-length tuple.",
    "note": "The integer address is observed only through its serialisation. has_valid_domain is not judged for '.' alone or IP literals. Bounded by the menus and depths recorded in evidence.",
}
