# C02: memory-safe, exception-free and terminating on arbitrary bytes (sanitizer sweep over every public entry point)

RAW_SRC = ["harness/drv_raw.cpp"]


def _c02_stages(tier):
    san = {"name": "raw-enum-san", "driver": "drv_raw", "config": "san", "sources": RAW_SRC,
           "args": ["--deadline", "150" if tier == "quick" else "1200"], "kinds": ["raw"]}
    if tier != "thorough":
        return [san]
    # uninstrumented build under valgrind memcheck (uninitialised reads): the quick-tier enumeration, 10-40x smaller than the thorough one
    vg = {"name": "raw-enum-valgrind", "driver": "drv_raw", "config": "rel", "sources": RAW_SRC,
          "args": ["--vg", "1", "--deadline", "400"], "kinds": ["raw-vg"]}
    return [san, vg]


simple("C02", "exploration",
       "E-raw: all sequences of <=k tokens over a 41-token alphabet (25 URL-structure tokens + NUL, 0x80, 0xBF, 0xC0, lone 0xC3, "
       "truncated E2 82, surrogate ED A0 80, F4 90 80 80, 0xFF, %f, %ff, xn-- with a bad digit / overflowing digits, e-acute, U+FFFD, "
       "an astral char), each argument copied into an exact-size heap block, fed to every public entry point (quick / thorough): "
       "parse<url>/<url_aggregator>, can_parse, href_from_file with no base, all 12 bases and the string itself as base of 18 inputs "
       "(k<=2 / k<=3), and no base + 2 bases + as base of one input one notch deeper (k=3 / k=4 over a 24-token sub-alphabet of all "
       "odd-byte tokens); 10 setters x every string (k<=2 on 6 states / k<=2 on 18 states and k=3 on 4) + 3 clear_*, both URL types, "
       "setter histories of depth 2 (values k<=1 on 2 / 12 states; thorough also first value k<=2 over the sub-alphabet x 10 second "
       "values on 4 states) and depth 3 (3 values, 2 states / 6 values, 8 states), all getters + validate on every new object state "
       "and to_string/to_diagram/copy/move on every new (offsets, flags, length, JSON-escape classes) signature; url_search_params "
       "(k<=3 as init/key/value, every operation sequence of depth <=2 / 3 with three iterators held open); idna on bytes (k<=3, IDNA "
       "alphabet k<=3 / 4; punycode guard-boundary family: m=0..8 nines + every 1 or 2 of the 36 digit characters, bare / after a- / ab-, "
       "35,964 labels as bare label, xn-- label, and next to a non-ASCII label through to_ascii and parse) and on vectors of <=3 / 4 of 35 code points incl. surrogates and values above U+10FFFF; percent-encode/"
       "decode helpers and checkers (k<=3 / +k=4 sub-alphabet); parse_url_pattern string/init forms +-base +-ignoreCase, then "
       "test/exec/match/test_components, url_pattern_init::process*, url_pattern_helpers (k<=2 over the raw and a 30-token pattern-"
       "syntax alphabet / + k=3 light), every string as input of 5 fixed patterns (k<=2 / 3); length sweep: every length 0..70, each "
       "of 6 / 12 interesting bytes at every offset, 3 / 8 templates; IPv4-looking hosts (<=4 / 6 chars over {0,1,9,.,x,a,f} + 12,288 "
       "octet products + 2^8/2^16/2^24/2^32/2^64 -1,0,+1 in decimal/hex/octal at every position); the C API (k<=2). evaluations = library calls, non-trivial = call produced a non-failure result, distinct = "
       "distinct (entry point, status, result length) shapes. Thorough adds the quick enumeration on the uninstrumented build under "
       "valgrind memcheck",
       ["oracle: process level - no ASan/UBSan/LSan report, no _GLIBCXX_ASSERTIONS abort, no exception leaving a call, no "
        "std::terminate, every call returns within the watchdog; thorough adds valgrind memcheck on the uninstrumented build",
        "clang++ 14 -O1 ASan+UBSan (-fno-sanitize-recover=undefined, unsigned wrap-around not checked) with -D_GLIBCXX_ASSERTIONS",
        "reports located inside libstdc++'s std::regex implementation (deep recursion on long inputs) are not ada's code: regex "
        "inputs are kept short and such reports are counted separately, never as violations"],
       _c02_stages,
       deadline={"quick": 400, "thorough": 2400})

META["C02"] = {
    "engine": "raw-enum (ASan/UBSan/LSan/_GLIBCXX_ASSERTIONS build; valgrind memcheck stage in the thorough tier)",
    "design_ref": "3/C02",
    "technique": "bounded exhaustive enumeration of raw byte strings, code-point vectors and operation histories over every public "
                 "entry point, executed in supervised worker processes with the case in flight kept in shared memory so that a dying "
                 "worker is attributed to the single responsible call",
    "text": "Every string of <=k tokens over an alphabet of URL-structure tokens and malformed-UTF-8/odd bytes is copied into an "
            "exact-size heap block (a one-byte over-read hits a red zone) and passed to every public entry point, alone, as base, as "
            "setter value on every state of a menu (histories to depth 2/3), as search-params init/key/value, as IDNA input, as URL "
            "pattern / pattern input; a length sweep 0..70 puts every interesting byte at every offset for the SIMD and unrolled "
            "kernels. A sanitizer report, assertion, escaping exception, std::terminate, leak or watchdog expiry is a violation "
            "whose witness is the exact call sequence.",
    "note": "Absence of reports is a statement about the enumerated inputs only. MSan is not usable here (no instrumented libstdc++); "
            "uninitialised reads are looked for with valgrind on a ~10x smaller enumeration in the thorough tier.",
}
