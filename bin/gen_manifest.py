#!/usr/bin/python3
"""Regenerates /verif/MANIFEST.json from bin/props.py + bin/manifest_meta.py (kept valid at all times)."""
import json, os, sys
sys.path.insert(0, os.path.dirname(os.path.abspath(__file__)))
import props, manifest_meta as mm
mm.META.update(props.META)

checks = []
for pid in sorted(props.SPECS):
    if pid not in mm.META or pid not in mm.ACCEPTED:
        continue  # spec under construction: not claimed until its META entry exists
    meta = mm.META[pid]
    checks.append({
        "property_id": pid,
        "quick_cmd": "/usr/bin/python3 bin/check.py %s --tier quick" % pid,
        "thorough_cmd": "/usr/bin/python3 bin/check.py %s --tier thorough" % pid,
        "evidence_file": "/verif/evidence/%s.json" % pid,
        "replay_cmd_template": "/usr/bin/python3 bin/check.py %s --replay {path}" % pid,
        "engine": meta["engine"],
        "level_claimed": {"category": props.SPECS[pid]["level"], "text": meta["text"], "design_ref": meta["design_ref"]},
        "level_note": meta["note"],
        "technique": meta["technique"],
    })
na = [{"property_id": p, "reason": r} for p, r in sorted(mm.NOT_APPLICABLE.items()) if not (p in props.SPECS and p in mm.META and p in mm.ACCEPTED)]
m = {
    "version": 1,
    "setup_cmd": "/usr/bin/python3 bin/setup.py",
    "hooks": {
        "guard": "ADA_URL_ADA_VERIF",
        "enable": "checks compile /repo/src/ada.cpp themselves with -DADA_URL_ADA_VERIF=1 (bin/vlib.py CONFIGS); the only hook is the C14 force-REGEXP switch",
        "baseline_off_cmd": "cmake --build /repo/_build -j16 -- -k 0 ; ctest --test-dir /repo/_build -j8 --timeout 900",
        "source_commits": mm.HOOK_COMMITS,
        "add_only": True,
    },
    "engines": mm.ENGINES,
    "checks": checks,
    "not_applicable": na,
    "notes": mm.NOTES,
}
with open(os.path.join(os.path.dirname(os.path.dirname(os.path.abspath(__file__))), "MANIFEST.json"), "w") as fh:
    json.dump(m, fh, indent=1)
    fh.write("\n")
print("checks:", [c["property_id"] for c in checks], "not_applicable:", [n["property_id"] for n in na])
