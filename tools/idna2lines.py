#!/usr/bin/env python3
"""Convert IDNA test corpora to hex-encoded TAB-separated lines (so the C++ selftest
needs no JSON / escape parser).  stdlib only, any python3 >= 3.6, independent of cwd.

  idna2lines.py json <IdnaTestV2.json|toascii.json>  > out.tsv
      one line per test object:   hex(utf8(input)) TAB hex(utf8(output))|"-" TAB hex(utf8(comment))
      ("-" = expected failure (output null); empty hex = empty string)
      Lone surrogates in the JSON are encoded with 'surrogatepass' (ill-formed UTF-8: ED A0..BF xx),
      which every conforming consumer must reject.

  idna2lines.py txt <IdnaTestV2.txt>  > out.tsv
      one line per test line, with the file's "blank means same as ..." rules resolved:
      hex(source) TAB hex(toUnicode) TAB toUnicodeStatus TAB hex(toAsciiN) TAB toAsciiNStatus
      statuses are comma-separated codes without brackets ("" = no error).

  idna2lines.py puny <punycode_tests.json>  > out.tsv      (rust idna crate / punycode.js vectors)
      hex(utf8(decoded)) TAB hex(encoded)
"""
import json
import re
import sys


def hx(s):
    return s.encode("utf-8", "surrogatepass").hex()


def do_json(path):
    with open(path, encoding="utf-8") as f:
        data = json.load(f)
    for e in data:
        if not isinstance(e, dict):
            continue
        out = e.get("output")
        print("%s\t%s\t%s" % (hx(e["input"]), "-" if out is None else hx(out), hx(e.get("comment", "") or "")))


_esc = re.compile(r"\\u([0-9A-Fa-f]{4})|\\x\{([0-9A-Fa-f]+)\}")


def unescape(s):
    s = _esc.sub(lambda m: chr(int(m.group(1) or m.group(2), 16)), s)
    # join surrogate pairs written as two \u escapes
    return re.sub("[\ud800-\udbff][\udc00-\udfff]",
                  lambda m: chr(0x10000 + ((ord(m.group(0)[0]) - 0xD800) << 10) + (ord(m.group(0)[1]) - 0xDC00)), s)


def status(s):
    s = s.strip()
    if not s:
        return None  # blank
    assert s[0] == "[" and s[-1] == "]", s
    return ",".join(x.strip() for x in s[1:-1].split(",") if x.strip())


def do_txt(path):
    with open(path, encoding="utf-8") as f:
        for line in f:
            line = line.rstrip("\n")
            p = line.find("#")
            if p >= 0:
                line = line[:p]
            if not line.strip():
                continue
            cols = [c.strip() for c in line.split(";")]
            assert len(cols) >= 7, line

            def val(c):
                return "" if c == '""' else unescape(c)
            source = val(cols[0])
            to_unicode = val(cols[1]) if cols[1] != "" else source
            u_status = status(cols[2]) or ""
            to_ascii = val(cols[3]) if cols[3] != "" else to_unicode
            a_status = status(cols[4])
            if a_status is None:
                a_status = u_status
            print("%s\t%s\t%s\t%s\t%s" % (hx(source), hx(to_unicode), u_status, hx(to_ascii), a_status))


def do_puny(path):
    with open(path, encoding="utf-8") as f:
        data = json.load(f)
    for e in data:
        print("%s\t%s" % (hx(e["decoded"]), hx(e["encoded"])))


if __name__ == "__main__":
    modes = {"json": do_json, "txt": do_txt, "puny": do_puny}
    if len(sys.argv) != 3 or sys.argv[1] not in modes:
        sys.stderr.write(__doc__)
        sys.exit(2)
    modes[sys.argv[1]](sys.argv[2])
