#!/root/.pyenv/versions/3.11.7/bin/python3
"""One-shot extraction of Unicode 17.0 property data into plain-text tables.

Run ONCE (by hand); its output under /verif/data/ucd17/ is committed and the
checks never run this script again.  There is no UCD on this image, so the data
is taken from three places that do carry it (see data/ucd17/README):

  * idna 3.13 (site-packages of pyenv 3.11.7)       -> IdnaMappingTable, Joining_Type
  * unicode-normalization 0.1.25 src/tables.rs      -> ccc, canonical decompositions,
                                                       primary composites, General_Category=M
  * unicodedata of pyenv 3.13.0 (Unicode 15.1.0)    -> Bidi_Class (newest available)

Usage:  /root/.pyenv/versions/3.11.7/bin/python3 tools/extract_ucd17.py [outdir]
(the script re-invokes itself under the 3.13.0 interpreter for the Bidi part).
Only the stdlib plus the `idna` package named above is imported.
"""
import glob
import os
import re
import subprocess
import sys

PY311 = "/root/.pyenv/versions/3.11.7/bin/python3"
PY313 = "/root/.pyenv/versions/3.13.0/bin/python3"
TABLES_RS = glob.glob("/root/.cargo/registry/src/*/unicode-normalization-0.1.25/src/tables.rs")


def hexcp(cp):
    return "%04X" % cp


def rng(a, b):
    return hexcp(a) if a == b else "%s..%s" % (hexcp(a), hexcp(b))


def runs(values, n=0x110000):
    """values: function cp -> hashable; yield (start, end, value) maximal runs."""
    start = 0
    cur = values(0)
    for cp in range(1, n):
        v = values(cp)
        if v != cur:
            yield start, cp - 1, cur
            start, cur = cp, v
    yield start, n - 1, cur


def write(path, header, lines):
    with open(path, "w", encoding="ascii", newline="\n") as f:
        for h in header:
            f.write("# " + h + "\n")
        for l in lines:
            f.write(l + "\n")
    print("%-22s %7d lines %9d bytes" % (os.path.basename(path), len(lines), os.path.getsize(path)))


# ----------------------------------------------------------------------------
# Bidi part: runs under Python 3.13.0 (unicodedata 15.1.0), prints the file.
# ----------------------------------------------------------------------------

# UAX #9 / DerivedBidiClass.txt "@missing" defaults for unassigned code points
# (Unicode 16/17 header lines; identical ranges in 15.1 apart from the
# 10D40..10EBF / 10EC0..10EFF split, which is the 16.0+ form used here).
DEFAULT_BIDI_RANGES = [
    (0x0590, 0x05FF, "R"), (0x0600, 0x07BF, "AL"), (0x07C0, 0x085F, "R"),
    (0x0860, 0x08FF, "AL"), (0x20A0, 0x20CF, "ET"), (0xFB1D, 0xFB4F, "R"),
    (0xFB50, 0xFDCF, "AL"), (0xFDF0, 0xFDFF, "AL"), (0xFE70, 0xFEFF, "AL"),
    (0x10800, 0x10CFF, "R"), (0x10D00, 0x10D3F, "AL"), (0x10D40, 0x10EBF, "R"),
    (0x10EC0, 0x10EFF, "AL"), (0x10F00, 0x10F2F, "R"), (0x10F30, 0x10F6F, "AL"),
    (0x10F70, 0x10FFF, "R"), (0x1E800, 0x1EC6F, "R"), (0x1EC70, 0x1ECBF, "AL"),
    (0x1ECC0, 0x1ECFF, "R"), (0x1ED00, 0x1ED4F, "AL"), (0x1ED50, 0x1EDFF, "R"),
    (0x1EE00, 0x1EEFF, "AL"), (0x1EF00, 0x1EFFF, "R"),
]
# Unassigned Default_Ignorable_Code_Point ranges (DerivedCoreProperties.txt,
# stable "reserved" ranges) -> BN by default.
DEFAULT_IGNORABLE_RESERVED = [
    (0x2065, 0x2065), (0xFFF0, 0xFFF8), (0xE0000, 0xE0000), (0xE0002, 0xE001F),
    (0xE0080, 0xE00FF), (0xE01F0, 0xE0FFF),
]


def default_bidi(cp):
    if 0xFDD0 <= cp <= 0xFDEF or (cp & 0xFFFE) == 0xFFFE:
        return "BN"  # noncharacters
    for a, b in DEFAULT_IGNORABLE_RESERVED:
        if a <= cp <= b:
            return "BN"
    for a, b, c in DEFAULT_BIDI_RANGES:
        if a <= cp <= b:
            return c
    return "L"


def bidi_main():
    import unicodedata as u
    assert u.unidata_version == "15.1.0", u.unidata_version

    def val(cp):
        ch = chr(cp)
        if u.category(ch) != "Cn":
            b = u.bidirectional(ch)
            assert b, hex(cp)
            return (b, "a")
        assert u.bidirectional(ch) == ""
        return (default_bidi(cp), "d")

    for a, b, (c, flag) in runs(val):
        print("%s;%s;%s" % (rng(a, b), c, flag))


# ----------------------------------------------------------------------------
# Main part: runs under Python 3.11.7 (idna 3.13 importable).
# ----------------------------------------------------------------------------

def main(outdir):
    os.makedirs(outdir, exist_ok=True)
    import idna
    from idna import idnadata, uts46data
    assert idna.__version__ == "3.13", idna.__version__
    assert idnadata.__version__ == "17.0.0" and uts46data.__version__ == "17.0.0"

    # ---- IdnaMappingTable ---------------------------------------------------
    table = uts46data.uts46data
    names = {"V": "valid", "M": "mapped", "I": "ignored", "X": "disallowed", "D": "deviation"}
    # Each entry is (first_cp, status[, mapping]) and extends to the next entry.
    # idna/core.py uts46_remap(): status '3' = disallowed_STD3_* of Unicode < 16;
    # the 17.0.0 table has none (asserted), so UseSTD3ASCIIRules does not touch the table.
    assert table[0][0] == 0 and all(table[i][0] < table[i + 1][0] for i in range(len(table) - 1))
    assert {r[1] for r in table} <= set(names), {r[1] for r in table}
    rows = []  # (start, end, status, mapping tuple)
    for i, row in enumerate(table):
        start = row[0]
        end = (table[i + 1][0] - 1) if i + 1 < len(table) else 0x10FFFF
        st = row[1]
        mp = tuple(ord(c) for c in row[2]) if len(row) == 3 else ()
        if st in "VIX":
            assert not mp or st == "I", row
            mp = ()
        if st == "M":
            assert mp, row
        if st == "D":
            # deviation rows carry the (transitional) mapping; may be empty (ZWJ/ZWNJ)
            pass
        # merge with previous if same status+mapping and (status has no per-cp meaning)
        if rows and rows[-1][2] == st and rows[-1][3] == mp and rows[-1][1] + 1 == start:
            rows[-1] = (rows[-1][0], end, st, mp)
        else:
            rows.append((start, end, st, mp))
    assert rows[0][0] == 0 and rows[-1][1] == 0x10FFFF
    lines = ["%s;%s;%s" % (rng(a, b), names[s], " ".join(hexcp(c) for c in m)) for a, b, s, m in rows]
    write(os.path.join(outdir, "idna_map.txt"),
          ["IdnaMappingTable, Unicode 17.0.0, UseSTD3ASCIIRules-independent (no disallowed_STD3_* since 16.0).",
           "Source: idna 3.13 uts46data.py (__version__ 17.0.0). Covers 0000..10FFFF completely (surrogates = disallowed).",
           "Format: start[..end];status;mapping (hex code points, space separated; for deviation = the transitional mapping)"],
          lines)

    # ---- Joining_Type -------------------------------------------------------
    jt = idnadata.joining_types()
    assert set(jt.values()) <= {ord(c) for c in "CDLRT"}, set(jt.values())
    lines = ["%s;%s" % (rng(a, b), v) for a, b, v in runs(lambda cp: chr(jt.get(cp, ord("U")))) if v != "U"]
    write(os.path.join(outdir, "joining_type.txt"),
          ["Joining_Type (DerivedJoiningType), Unicode 17.0.0; code points not listed are U (Non_Joining).",
           "Source: idna 3.13 idnadata.py joining_types() (__version__ 17.0.0).",
           "Format: start[..end];type  (C D L R T)"],
          lines)

    # ---- unicode-normalization tables.rs ------------------------------------
    assert len(TABLES_RS) == 1, TABLES_RS
    src = open(TABLES_RS[0], encoding="utf-8").read()
    assert "UNICODE_VERSION: (u8, u8, u8) = (17, 0, 0)" in src

    def block(name, opener="&["):
        m = re.search(r"const %s: [^=]*= %s(.*?)\n\];" % (name, re.escape(opener)), src, re.S)
        assert m, name
        return m.group(1)

    ccc = {}
    for m in re.finditer(r"0x([0-9A-Fa-f]+)", block("CANONICAL_COMBINING_CLASS_KV")):
        kv = int(m.group(1), 16)
        ccc[kv >> 8] = kv & 0xFF
    assert all(v != 0 for v in ccc.values())
    lines = ["%s;%d" % (rng(a, b), v) for a, b, v in runs(lambda cp: ccc.get(cp, 0)) if v]
    write(os.path.join(outdir, "ccc.txt"),
          ["Canonical_Combining_Class, Unicode 17.0.0; code points not listed have ccc=0. Virama = ccc 9.",
           "Source: unicode-normalization 0.1.25 src/tables.rs CANONICAL_COMBINING_CLASS_KV.",
           "Format: start[..end];ccc (decimal)"],
          lines)

    marks = {int(m.group(1), 16) for m in re.finditer(r"0x([0-9A-Fa-f]+)", block("COMBINING_MARK_KV"))}
    lines = [rng(a, b) for a, b, v in runs(lambda cp: cp in marks) if v]
    write(os.path.join(outdir, "marks.txt"),
          ["General_Category=Mark (Mn, Mc, Me), Unicode 17.0.0.",
           "Source: unicode-normalization 0.1.25 src/tables.rs COMBINING_MARK_KV.",
           "Format: start[..end]"],
          lines)

    chars = [int(m.group(1), 16) for m in re.finditer(r"'\\u\{([0-9A-Fa-f]+)\}'", block("CANONICAL_DECOMPOSED_CHARS"))]
    decomp = {}
    for m in re.finditer(r"\(0x([0-9A-Fa-f]+), \(0x([0-9A-Fa-f]+), 0x([0-9A-Fa-f]+)\)\)", block("CANONICAL_DECOMPOSED_KV")):
        cp, off, ln = (int(x, 16) for x in m.groups())
        decomp[cp] = chars[off:off + ln]
        assert len(decomp[cp]) == ln
    # full decomposition: no element decomposes further, none is a Hangul syllable
    for cp, d in decomp.items():
        assert all(x not in decomp and not (0xAC00 <= x <= 0xD7A3) for x in d), hex(cp)
        assert not (0xAC00 <= cp <= 0xD7A3)
    lines = ["%s;%s" % (hexcp(cp), " ".join(hexcp(x) for x in decomp[cp])) for cp in sorted(decomp)]
    write(os.path.join(outdir, "decomp.txt"),
          ["Full canonical decomposition (Decomposition_Mapping without <tag>, applied recursively), Unicode 17.0.0.",
           "Hangul syllables AC00..D7A3 are NOT listed (algorithmic, Unicode Standard section 3.12).",
           "Source: unicode-normalization 0.1.25 src/tables.rs CANONICAL_DECOMPOSED_KV / _CHARS.",
           "Format: cp;decomposition (hex code points)"],
          lines)

    comp = {}
    for m in re.finditer(r"\(0x([0-9A-Fa-f]+), '\\u\{([0-9A-Fa-f]+)\}'\)", block("COMPOSITION_TABLE_KV")):
        k, c = int(m.group(1), 16), int(m.group(2), 16)
        comp[(k >> 16, k & 0xFFFF)] = c
    fn = re.search(r"fn composition_table_astral\(.*?\n\}", src, re.S).group(0)
    n_astral = 0
    for m in re.finditer(r"\('\\u\{([0-9A-Fa-f]+)\}', '\\u\{([0-9A-Fa-f]+)\}'\) => Some\('\\u\{([0-9A-Fa-f]+)\}'\)", fn):
        a, b, c = (int(x, 16) for x in m.groups())
        comp[(a, b)] = c
        n_astral += 1
    assert n_astral > 0
    # sanity: every pair is the one-step canonical decomposition of its composite
    for (a, b), c in comp.items():
        full = decomp[c]
        assert (decomp.get(a, [a]) + decomp.get(b, [b])) == full, (hex(a), hex(b), hex(c))
    lines = ["%s %s;%s" % (hexcp(a), hexcp(b), hexcp(c)) for (a, b), c in sorted(comp.items())]
    write(os.path.join(outdir, "comp.txt"),
          ["Primary composites: canonical composition pairs first second -> composite, Unicode 17.0.0.",
           "Composition exclusions (Full_Composition_Exclusion) are implied by absence. Hangul LV/LVT not listed (algorithmic).",
           "Source: unicode-normalization 0.1.25 src/tables.rs COMPOSITION_TABLE_KV + composition_table_astral().",
           "Format: first second;composite (hex code points)"],
          lines)

    # ---- Bidi_Class (Unicode 15.1 via the other interpreter) ------------------
    out = subprocess.run([PY313, os.path.abspath(__file__), "--bidi"], check=True,
                         capture_output=True, text=True, cwd="/").stdout.splitlines()
    write(os.path.join(outdir, "bidi_class.txt"),
          ["Bidi_Class, Unicode 15.1.0 (newest available offline; NOT 17.0).",
           "flag a = code point assigned in 15.1.0 (General_Category != Cn; Bidi_Class is immutable-in-practice for assigned characters);",
           "flag d = unassigned in 15.1.0: value is the UAX #9 / DerivedBidiClass.txt @missing default by block",
           "         (the true 16.0/17.0 value of characters added later may differ: do not judge on these).",
           "Source: unicodedata.bidirectional / unicodedata.category of CPython 3.13.0 (unidata_version 15.1.0).",
           "Format: start[..end];class;flag"],
          out)


if __name__ == "__main__":
    if len(sys.argv) > 1 and sys.argv[1] == "--bidi":
        bidi_main()
    else:
        main(sys.argv[1] if len(sys.argv) > 1 else
             os.path.join(os.path.dirname(os.path.dirname(os.path.abspath(__file__))), "data", "ucd17"))
