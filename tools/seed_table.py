#!/usr/bin/python3
"""Prints the markdown table of seeded changes (seeded/*/meta.json) for DESIGN.md section 9.4."""
import glob, json, os
rows = []
for d in sorted(glob.glob("/verif/seeded/*")):
    mp = os.path.join(d, "meta.json")
    if not os.path.exists(mp):
        continue
    m = json.load(open(mp))
    c = m.get("confirmed_by_verif", {})
    caught = ", ".join(c.get("caught_by_quick") or []) or "**none**"
    thor = ", ".join(c.get("caught_by_thorough") or [])
    rows.append("| `%s` | %s | %s | %s | %s%s |" % (os.path.basename(d), m.get("property"), (m.get("summary") or "").replace("|", "/").replace("\n", " ")[:170],
                                              (m.get("needs_to_manifest") or "").replace("|", "/").replace("\n", " ")[:150], caught, (" (thorough: " + thor + ")") if thor else ""))
print("| seed | property | change | needs, to manifest | caught by (quick tier) |")
print("|---|---|---|---|---|")
print("\n".join(rows))
