#!/usr/bin/env python3
"""wpt2lines.py -- convert the WPT URL JSON vectors to a trivial line format.

usage: wpt2lines.py <wpt-dir> <outdir>

Stdlib only.  Every output file has one test per line, TAB-separated fields.
Every string field is the lower-case hex of its UTF-8 bytes ("" = empty
string); a missing / null field is "-".

Lone surrogates (which cannot be represented in UTF-8) are converted the way a
browser's USVString conversion does (lone surrogate -> U+FFFD) and the line is
flagged "S" in the flags field (otherwise ".").

<name>.url.lines   (urltestdata-style lists; comment strings are skipped)
    U flags index input base failure(0/1) href origin protocol username password
      host hostname port pathname search hash
<name>.set.lines   (setters_tests-style objects)
    S flags attr(plain) index href new_value {expected-attr(plain) expected-value}...
percent-encoding.pct.lines
    P flags index input utf8-output
"""
import json
import os
import sys

URL_FIELDS = ["href", "origin", "protocol", "username", "password", "host",
              "hostname", "port", "pathname", "search", "hash"]


class Conv:
    def __init__(self):
        self.flag = False

    def hx(self, s):
        if s is None:
            return "-"
        if not isinstance(s, str):
            raise ValueError("not a string: %r" % (s,))
        out = []
        for ch in s:
            if 0xD800 <= ord(ch) <= 0xDFFF:
                self.flag = True
                out.append("\ufffd")
            else:
                out.append(ch)
        return "".join(out).encode("utf-8").hex()


def conv_urltestdata(path, out):
    data = json.load(open(path, encoding="utf-8"))
    if not isinstance(data, list):
        return None
    n = 0
    with open(out, "w", encoding="ascii") as f:
        for idx, t in enumerate(data):
            if isinstance(t, str):
                continue  # comment
            if not isinstance(t, dict) or "input" not in t:
                return None
            c = Conv()
            fields = [c.hx(t["input"]), c.hx(t.get("base")),
                      "1" if t.get("failure") else "0"]
            for k in URL_FIELDS:
                fields.append(c.hx(t.get(k)))
            f.write("\t".join(["U", "S" if c.flag else ".", str(idx)] + fields) + "\n")
            n += 1
    return n


def conv_setters(path, out):
    data = json.load(open(path, encoding="utf-8"))
    if not isinstance(data, dict):
        return None
    n = 0
    with open(out, "w", encoding="ascii") as f:
        for attr, tests in data.items():
            if attr == "comment":
                continue
            if not isinstance(tests, list):
                return None
            for idx, t in enumerate(tests):
                if not (isinstance(t, dict) and "href" in t and "new_value" in t
                        and isinstance(t.get("expected"), dict)):
                    return None
                c = Conv()
                fields = [c.hx(t["href"]), c.hx(t["new_value"])]
                for k, v in t["expected"].items():
                    fields.append(k)
                    fields.append(c.hx(v))
                f.write("\t".join(["S", "S" if c.flag else ".", attr, str(idx)] + fields) + "\n")
                n += 1
    return n


def conv_percent(path, out):
    data = json.load(open(path, encoding="utf-8"))
    if not isinstance(data, list):
        return None
    n = 0
    with open(out, "w", encoding="ascii") as f:
        for idx, t in enumerate(data):
            if isinstance(t, str):
                continue
            if "utf-8" not in t.get("output", {}):
                continue
            c = Conv()
            fields = [c.hx(t["input"]), c.hx(t["output"]["utf-8"])]
            f.write("\t".join(["P", "S" if c.flag else ".", str(idx)] + fields) + "\n")
            n += 1
    return n


JOBS = [
    ("urltestdata.json", "urltestdata.url.lines", conv_urltestdata),
    ("urltestdata-javascript-only.json", "urltestdata-javascript-only.url.lines", conv_urltestdata),
    ("setters_tests.json", "setters_tests.set.lines", conv_setters),
    ("percent-encoding.json", "percent-encoding.pct.lines", conv_percent),
    ("ada_extra_urltestdata.json", "ada_extra_urltestdata.url.lines", conv_urltestdata),
    ("ada_long_urltestdata.json", "ada_long_urltestdata.url.lines", conv_urltestdata),
    ("ada_extra_setters_tests.json", "ada_extra_setters_tests.set.lines", conv_setters),
]


def main():
    if len(sys.argv) != 3:
        sys.stderr.write(__doc__)
        return 2
    src, dst = sys.argv[1], sys.argv[2]
    os.makedirs(dst, exist_ok=True)
    for name, outname, fn in JOBS:
        p = os.path.join(src, name)
        o = os.path.join(dst, outname)
        if not os.path.exists(p):
            print("%-40s absent" % name)
            continue
        try:
            n = fn(p, o)
        except (ValueError, KeyError, TypeError, AttributeError) as e:
            n = None
            print("%-40s format mismatch (%s)" % (name, e))
        if n is None:
            if os.path.exists(o):
                os.remove(o)
            print("%-40s skipped: format does not match" % name)
        else:
            print("%-40s %d tests -> %s" % (name, n, o))
    return 0


if __name__ == "__main__":
    sys.exit(main())
