#!/usr/bin/python3
"""verify_seed.py <worktree> <seed-dir> [--checks C01,C04,...] [--tier quick] [--skip-tests]

Confirms a seeded defect independently of whoever wrote it, in a scratch worktree that already has a
configured `_build` (see tools/BUILDER_BRIEF.md / seeded/README.md):
  1. clean tree: demo compiles, exits 0
  2. apply patch: project builds, ctest passes exactly as the baseline (259 pass, 4 *_NOT_BUILT)
  3. demo (rebuilt against the changed sources) exits non-zero
  4. each requested /verif check is run with VERIF_REPO=<worktree>: records rc and the VIOLATION classes
  5. patch reverted (git checkout -- .)
Prints one JSON document; never touches /repo.
"""
import json
import os
import re
import subprocess
import sys
import time

VERIF = os.path.dirname(os.path.dirname(os.path.abspath(__file__)))


def sh(cmd, cwd=None, timeout=3600, env=None):
    r = subprocess.run(cmd, shell=isinstance(cmd, str), cwd=cwd, stdout=subprocess.PIPE, stderr=subprocess.STDOUT,
                       text=True, errors="replace", timeout=timeout, env=env)
    return r.returncode, r.stdout


def build_demo(wt, demo, out):
    extra = ""
    src = open(demo, errors="replace").read()
    m = re.search(r"VERIF-DEMO-FLAGS:(.*)", src)
    if m:
        extra = m.group(1).strip()
    else:
        # the author's recorded compile command may carry configuration flags (-mssse3, -DADA_DEVELOPMENT_CHECKS=1, sanitizers)
        try:
            meta = json.load(open(os.path.join(os.path.dirname(demo), "meta.json")))
            toks = [t.rstrip(",;)") for t in str(meta.get("demo_compile", "")).split(" #")[0].split()]
            std = {"-DADA_INCLUDE_URL_PATTERN=1", "-DADA_USE_UNSAFE_STD_REGEX_PROVIDER=1"}
            keep = [t for t in toks if (t.startswith(("-m", "-fsanitize", "-D", "-fno-sanitize")) and t not in std)]
            extra = " ".join(dict.fromkeys(keep))
        except Exception:
            pass
    cmd = ("g++ -std=c++20 -O2 -I%s/include -I%s/src -DADA_INCLUDE_URL_PATTERN=1 -DADA_USE_UNSAFE_STD_REGEX_PROVIDER=1 %s "
           "%s %s/src/ada.cpp -lpthread -o %s" % (wt, wt, extra, demo, wt, out))
    return sh(cmd)


def ctest(wt):
    rc, o = sh("cmake --build _build -j8 -- -k 0", cwd=wt)
    rc2, o2 = sh("ctest --test-dir _build -j8 --timeout 900", cwd=wt)
    m = re.search(r"(\d+)% tests passed, (\d+) tests failed out of (\d+)", o2)
    failed = re.findall(r"^\s*\d+ - (\S+) \(", o2, re.M)
    unexpected = [f for f in failed if not f.endswith("_NOT_BUILT")]
    return {"summary": m.group(0) if m else o2[-300:], "failed": failed, "unexpected_failures": unexpected,
            "ok": bool(m) and not unexpected}


def main():
    wt = os.path.abspath(sys.argv[1])
    seed = os.path.abspath(sys.argv[2])
    checks, tier, skip_tests = [], "quick", False
    a = sys.argv[3:]
    while a:
        k = a.pop(0)
        if k == "--checks":
            checks = a.pop(0).split(",")
        elif k == "--tier":
            tier = a.pop(0)
        elif k == "--skip-tests":
            skip_tests = True
    res = {"worktree": wt, "seed": seed, "t": time.strftime("%F %T")}
    patch = os.path.join(seed, "patch.diff")
    demo = os.path.join(seed, "demo.cpp")
    sh("git checkout -- .", cwd=wt)
    exe = os.path.join(seed, "demo.bin")
    rc, o = build_demo(wt, demo, exe)
    res["demo_clean_compile_rc"] = rc
    if rc == 0:
        rc, o = sh(exe, timeout=600)
        res["demo_clean_rc"] = rc
        res["demo_clean_out"] = o[-400:]
    else:
        res["demo_clean_out"] = o[-800:]
    rc, o = sh("git apply --whitespace=nowarn %s" % patch, cwd=wt)
    res["apply_rc"] = rc
    if rc != 0:
        res["apply_out"] = o[-500:]
        print(json.dumps(res, indent=1))
        return 1
    try:
        if not skip_tests:
            res["tests"] = ctest(wt)
        rc, o = build_demo(wt, demo, exe)
        res["demo_mut_compile_rc"] = rc
        if rc == 0:
            rcs = []
            for _ in range(3):
                rc, o = sh(exe, timeout=600)
                rcs.append(rc)
            res["demo_mut_rcs"] = rcs
            res["demo_mut_out"] = o[-400:]
        res["checks"] = {}
        env = dict(os.environ, VERIF_REPO=wt)
        for c in checks:
            t0 = time.time()
            rc, o = sh(["/usr/bin/python3", os.path.join(VERIF, "bin/check.py"), c, "--tier", tier], cwd=VERIF, env=env, timeout=7200)
            cls = re.findall(r"class=(\S+)", o)
            res["checks"][c] = {"rc": rc, "wall_s": round(time.time() - t0, 1), "classes": cls[:8],
                                "violation_lines": len(re.findall(r"^VIOLATION ", o, re.M)),
                                "tail": o[-300:] if rc not in (0, 1) else ""}
    finally:
        sh("git checkout -- .", cwd=wt)
        if os.path.exists(exe):
            os.unlink(exe)
    ok = (res.get("demo_clean_rc") == 0 and (skip_tests or res["tests"]["ok"]) and res.get("demo_mut_rcs") and all(res["demo_mut_rcs"]))
    res["seed_valid"] = bool(ok)
    res["caught_by"] = [c for c, v in res.get("checks", {}).items() if v["rc"] == 1]
    print(json.dumps(res, indent=1))
    return 0


if __name__ == "__main__":
    sys.exit(main())
