#!/bin/bash
# vseed_q.sh <PID> <checks> [rebase|-] [seed names...]  -- verifies /tmp/mut-<PID>/SEED/<m> serialised by a lock (one at a time)
# rebase: first move the scratch worktree to /repo's current main (fix commits landed after the seed was written)
P=$1; C=$2; R=$3; shift 3 2>/dev/null
MS="$@"; [ -z "$MS" ] && MS="m1 m2"
if [ "$R" = "rebase" ]; then
  git -C /tmp/mut-$P checkout -q -- . ; git -C /tmp/mut-$P checkout -q --detach main || exit 1
fi
for m in $MS; do
  [ -f /tmp/seedres/${P}_$m.json ] && grep -q seed_valid /tmp/seedres/${P}_$m.json && continue
  flock /tmp/seedres/.lockB /usr/bin/python3 /verif/tools/verify_seed.py /tmp/mut-$P /tmp/mut-$P/SEED/$m --checks $C > /tmp/seedres/${P}_$m.json 2>&1
done
