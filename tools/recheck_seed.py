#!/usr/bin/python3
"""recheck_seed.py <PID> <mN> <checks> [tier] -- re-run /verif checks against an already confirmed seed (patch applied in its
scratch worktree, VERIF_REPO pointing there), merge the outcome into /tmp/seedres/<PID>_<mN>.json."""
import json, os, re, subprocess, sys, time, fcntl
pid, m, checks = sys.argv[1], sys.argv[2], sys.argv[3].split(",")
tier = sys.argv[4] if len(sys.argv) > 4 else "quick"
wt = "/tmp/mut-%s" % pid
rp = "/tmp/seedres/%s_%s.json" % (pid, m)
t = open(rp).read(); res = json.loads(t[t.index("{"):])
lock = open("/tmp/seedres/.lock-" + pid, "w"); fcntl.flock(lock, fcntl.LOCK_EX)
subprocess.run("git checkout -- . && git apply --whitespace=nowarn SEED/%s/patch.diff" % m, shell=True, cwd=wt, check=True)
try:
    for c in checks:
        t0 = time.time()
        r = subprocess.run(["/usr/bin/python3", "/verif/bin/check.py", c, "--tier", tier], cwd="/verif", env=dict(os.environ, VERIF_REPO=wt),
                           stdout=subprocess.PIPE, stderr=subprocess.STDOUT, text=True)
        o = r.stdout
        res.setdefault("checks", {})[c if tier == "quick" else c + ":" + tier] = {
            "rc": r.returncode, "wall_s": round(time.time() - t0, 1), "classes": re.findall(r"class=(\S+)", o)[:8],
            "violation_lines": len(re.findall(r"^VIOLATION ", o, re.M)), "tail": o[-300:] if r.returncode not in (0, 1) else ""}
finally:
    subprocess.run("git checkout -- .", shell=True, cwd=wt)
res["caught_by"] = sorted(c for c, v in res["checks"].items() if v["rc"] == 1)
json.dump(res, open(rp, "w"), indent=1)
print(pid, m, {c: v["rc"] for c, v in res["checks"].items()})
