#!/usr/bin/python3
"""keep_seed.py <PID> <mN> [<mN>...]  -- copy a confirmed seeded change from /tmp/mut-<PID>/SEED/<mN> into
/verif/seeded/<PID>-<mN>/ (patch.diff, demo.cpp|demo.sh, meta.json) after tools/verify_seed.py confirmed it
(/tmp/seedres/<PID>_<mN>.json). meta.json = the author's meta + our confirmation record."""
import json, os, shutil, sys
pid = sys.argv[1]
for m in sys.argv[2:]:
    src = "/tmp/mut-%s/SEED/%s" % (pid, m)
    res_p = "/tmp/seedres/%s_%s.json" % (pid, m)
    t = open(res_p).read()
    res = json.loads(t[t.index("{"):])
    if not res.get("seed_valid"):
        print("NOT VALID, not kept:", pid, m); continue
    dst = "/verif/seeded/%s-%s" % (pid, m)
    os.makedirs(dst, exist_ok=True)
    for f in ("patch.diff", "demo.cpp", "demo.sh"):
        if os.path.exists(os.path.join(src, f)):
            shutil.copy(os.path.join(src, f), os.path.join(dst, f))
    try:
        meta = json.load(open(os.path.join(src, "meta.json")))
    except Exception:
        meta = {}
    meta["property"] = pid
    meta["confirmed_by_verif"] = {
        "when": res.get("t"),
        "what_we_ran": "tools/verify_seed.py in a scratch worktree: demo on clean tree -> exit %s; patch applied, project rebuilt, ctest: %s (unexpected failures: %s); demo rebuilt against the changed sources, 3 runs -> exits %s" % (
            res.get("demo_clean_rc"), (res.get("tests") or {}).get("summary"), (res.get("tests") or {}).get("unexpected_failures"), res.get("demo_mut_rcs")),
        "checks_run_quick": {c: {"rc": v["rc"], "classes": v["classes"][:4]} for c, v in res.get("checks", {}).items()},
        "caught_by_quick": res.get("caught_by"),
    }
    json.dump(meta, open(os.path.join(dst, "meta.json"), "w"), indent=1)
    print("kept", dst, "caught_by", res.get("caught_by"))
