#!/usr/bin/env python3
"""urlpattern2lines.py -- convert WPT urlpatterntestdata.json to a trivial line format.

usage: urlpattern2lines.py <urlpatterntestdata.json> <out-file>

Stdlib only.  One test entry per line, TAB-separated fields; every string value is the
lower-case hex of its UTF-8 bytes ("" = empty string).  Lone surrogates (not representable
in UTF-8) are converted the way a browser's USVString conversion does (-> U+FFFD) and the
line is flagged "S" (otherwise ".").

fields:
   0  "P"
   1  flags            "." | "S"
   2  index            position of the entry in the JSON array
   3  nargs            number of constructor arguments in "pattern"
   4..6  a0 a1 a2      constructor arguments            (ARG, see below; "-" = absent)
   7  has_inputs       1 if the entry has an "inputs" key else 0
   8  ninputs          number of elements of "inputs"
   9..10 i0 i1         test()/exec() arguments          (ARG)
  11  expected_obj     "-" absent | "E" the string "error" | ARG (dictionary)
  12  exactly_empty    "-" absent | "c:" + comma separated component names
  13  expected_match   "-" absent | "N" null | "E" the string "error" | "M" an object
  14  em.inputs        "-" absent | "l:" + ARG;ARG...
  15..22 em.protocol, username, password, hostname, port, pathname, search, hash:
                       "-" absent | "r:" + hex(input) + "|" + hex(name)=hex(value),...   ("~" = null value)

ARG := "s:" hex                          a string
     | "d:" key=hex,key=hex,...          a dictionary (keys are plain ASCII; a boolean value is !1 / !0)
"""
import json
import sys

COMPONENTS = ["protocol", "username", "password", "hostname", "port", "pathname", "search", "hash"]


class Conv:
    def __init__(self):
        self.flag = False

    def hx(self, s):
        if not isinstance(s, str):
            raise ValueError("not a string: %r" % (s,))
        out = []
        for ch in s:
            if 0xD800 <= ord(ch) <= 0xDFFF:
                self.flag = True
                out.append("\ufffd")
            else:
                out.append(ch)
        return "".join(out).encode("utf-8").hex()

    def arg(self, a):
        if isinstance(a, str):
            return "s:" + self.hx(a)
        if isinstance(a, dict):
            parts = []
            for k, v in a.items():
                if not k.isascii() or not k.isalnum():
                    raise ValueError("odd key %r" % k)
                if isinstance(v, bool):
                    parts.append("%s=!%d" % (k, 1 if v else 0))
                else:
                    parts.append("%s=%s" % (k, self.hx(v)))
            return "d:" + ",".join(parts)
        raise ValueError("argument is neither string nor object: %r" % (a,))

    def comp_result(self, r):
        groups = []
        for k, v in r.get("groups", {}).items():
            groups.append("%s=%s" % (self.hx(k), "~" if v is None else self.hx(v)))
        return "r:" + self.hx(r.get("input", "")) + "|" + ",".join(groups)


def main():
    if len(sys.argv) != 3:
        sys.stderr.write(__doc__)
        return 2
    data = json.load(open(sys.argv[1], encoding="utf-8"))
    if not isinstance(data, list):
        sys.stderr.write("format mismatch: top level is not a list\n")
        return 1
    n = 0
    with open(sys.argv[2], "w", encoding="ascii") as f:
        for idx, e in enumerate(data):
            if not isinstance(e, dict) or "pattern" not in e:
                continue  # comment
            c = Conv()
            pat = e["pattern"]
            if len(pat) > 3:
                raise ValueError("entry %d: more than 3 constructor arguments" % idx)
            args = [c.arg(a) for a in pat] + ["-"] * (3 - len(pat))
            inputs = e.get("inputs", [])
            if len(inputs) > 2:
                raise ValueError("entry %d: more than 2 inputs" % idx)
            ins = [c.arg(a) for a in inputs] + ["-"] * (2 - len(inputs))
            eo = e.get("expected_obj")
            if eo is None:
                eos = "-"
            elif eo == "error":
                eos = "E"
            elif isinstance(eo, dict):
                eos = c.arg(eo)
            else:
                raise ValueError("entry %d: odd expected_obj" % idx)
            eec = e.get("exactly_empty_components")
            eecs = "-" if eec is None else "c:" + ",".join(eec)
            fields_em = ["-"] * 9
            if "expected_match" not in e:
                ems = "-"
            elif e["expected_match"] is None:
                ems = "N"
            elif e["expected_match"] == "error":
                ems = "E"
            elif isinstance(e["expected_match"], dict):
                ems = "M"
                em = e["expected_match"]
                if "inputs" in em:
                    fields_em[0] = "l:" + ";".join(c.arg(a) for a in em["inputs"])
                for i, comp in enumerate(COMPONENTS):
                    if comp in em:
                        fields_em[1 + i] = c.comp_result(em[comp])
                for k in em:
                    if k != "inputs" and k not in COMPONENTS:
                        raise ValueError("entry %d: odd expected_match key %r" % (idx, k))
            else:
                raise ValueError("entry %d: odd expected_match" % idx)
            row = ["P", "S" if c.flag else ".", str(idx), str(len(pat))] + args + \
                  ["1" if "inputs" in e else "0", str(len(inputs))] + ins + [eos, eecs, ems] + fields_em
            f.write("\t".join(row) + "\n")
            n += 1
    print("%s: %d entries -> %s" % (sys.argv[1], n, sys.argv[2]))
    return 0


if __name__ == "__main__":
    sys.exit(main())
