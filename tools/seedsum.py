#!/usr/bin/python3
import json, sys
for f in sys.argv[1:]:
    t = open(f).read()
    try:
        r = json.loads(t[t.index('{'):])
    except Exception as e:
        print(f, "not ready/invalid:", t[-200:]); continue
    print(f, {k: r.get(k) for k in ('seed_valid', 'caught_by', 'demo_clean_rc', 'demo_mut_rcs')}, (r.get('tests') or {}).get('summary'), (r.get('tests') or {}).get('unexpected_failures'))
    for c, v in r.get('checks', {}).items():
        print('   ', c, 'rc', v['rc'], v['wall_s'], 's', v['classes'][:4], v.get('tail', '')[-150:])
