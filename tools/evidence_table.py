#!/usr/bin/python3
"""evidence_table.py [dir]  -- markdown table of what the evidence files in <dir> (default /verif/evidence) record."""
import glob, json, os, sys
d = sys.argv[1] if len(sys.argv) > 1 else "/verif/evidence"
print("| id | tier | level | evaluations | distinct non-trivial | states / transitions / traces replayed | exhaustive | known findings seen | wall s |")
print("|---|---|---|---|---|---|---|---|---|")
for f in sorted(glob.glob(os.path.join(d, "C*.json"))):
    e = json.load(open(f)); c = e["coverage"]
    st = "%s / %s / %s" % (c.get("states", "-"), c.get("transitions", "-"), c.get("traces_validated_against_impl", "-")) if "states" in c else "-"
    print("| %s | %s | %s | %s | %s%s | %s | %s | %s | %s |" % (e["property_id"], e["tier"], e["level"], f"{c.get('evaluations', 0):,}", f"{c.get('distinct_nontrivial', 0):,}",
          " (lower bound)" if c.get("distinct_is_lower_bound") else "", st, c.get("exhaustive"), len(c.get("known_findings_seen", [])), e["wall_s"]))
