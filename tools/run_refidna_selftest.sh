#!/bin/sh
# Builds and runs the refidna self-test (and, with --ada, the ada comparison) in a scratch directory.
#   tools/run_refidna_selftest.sh [--full] [--ada] [workdir]
#   --full : also dump the Python expectations (idna 3.13 table, CPython 3.13/Unicode 15.1 NFC) and check them
#   --ada  : also build /repo/src/ada.cpp (read-only) and print the ada-vs-model disagreement classes
set -eu
HERE=$(cd "$(dirname "$0")/.." && pwd)
FULL=0; ADA=0; WORK=/tmp/refidna-work
for a in "$@"; do case "$a" in --full) FULL=1;; --ada) ADA=1;; *) WORK=$a;; esac; done
mkdir -p "$WORK"
g++ -std=c++20 -O2 -o "$WORK/refidna_selftest" "$HERE/ref/refidna_selftest.cpp" "$HERE/ref/refidna.cpp"
EXTRA=""
if [ "$FULL" = 1 ]; then
  (cd / && /root/.pyenv/versions/3.11.7/bin/python3 "$HERE/tools/dump_expect.py" idna > "$WORK/idna_expect.tsv")
  (cd / && /root/.pyenv/versions/3.13.0/bin/python3 "$HERE/tools/dump_expect.py" nfc > "$WORK/nfc_expect.tsv")
  EXTRA="--idna-expect $WORK/idna_expect.tsv --nfc-expect $WORK/nfc_expect.tsv"
fi
PY=python3; [ -x /usr/bin/python3 ] && PY=/usr/bin/python3
(cd / && "$WORK/refidna_selftest" --data "$HERE/data/ucd17" --tools "$HERE/tools" --python "$PY" $EXTRA)
if [ "$ADA" = 1 ]; then
  [ -f "$WORK/ada.o" ] || g++ -std=c++20 -O2 -I/repo/include -I/repo/src -DADA_INCLUDE_URL_PATTERN=1 \
      -DADA_USE_UNSAFE_STD_REGEX_PROVIDER=1 -c /repo/src/ada.cpp -o "$WORK/ada.o"
  g++ -std=c++20 -O2 -I/repo/include -o "$WORK/refidna_vs_ada" "$HERE/ref/refidna_vs_ada.cpp" "$HERE/ref/refidna.cpp" "$WORK/ada.o"
  (cd / && "$WORK/refidna_vs_ada" --data "$HERE/data/ucd17" --maxlen 3)
fi
