#!/usr/bin/env python3
"""Write data/ucd17/assigned_13.txt: the code points assigned (General_Category != Cn) in Unicode 13.0.0.

Run ONCE with an interpreter whose unicodedata is 13.0.0 (on this image: /root/.pyenv/versions/3.9.18/bin/python3);
the output is committed, no check re-runs this.  Used by harness/drv_idna.cpp to tell "ada's combining-mark / Bidi /
virama tables are the Unicode 13.0 ones" (a disagreement on a code point added after 13.0) from any other table error.
"""
import sys
import unicodedata as u

assert u.unidata_version == "13.0.0", u.unidata_version
out = open(sys.argv[1], "w")
out.write("# Code points assigned (General_Category != Cn; surrogates and private use count as assigned) in Unicode 13.0.0.\n")
out.write("# Source: unicodedata.category of CPython 3.9.18 (unidata_version 13.0.0). Format: start[..end]\n")
start = None
for c in range(0x110000 + 1):
    a = c < 0x110000 and u.category(chr(c)) != "Cn"
    if a and start is None:
        start = c
    if not a and start is not None:
        out.write("%04X\n" % start if c - 1 == start else "%04X..%04X\n" % (start, c - 1))
        start = None
out.close()
