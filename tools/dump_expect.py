#!/usr/bin/env python3
"""Dump expected values for refidna_selftest from Python packages that exist on this
image (optional cross-checks; output goes to a scratch directory, never committed).

  /root/.pyenv/versions/3.11.7/bin/python3 dump_expect.py idna  > idna_expect.tsv
      all 1,114,112 code points through idna 3.13's own bisect lookup (uts46_remap's
      indexing), run-length compressed:  start..end TAB status TAB mapping-hex
      (mapping printed only for status M; a run for M has start==end unless equal mapping)

  /root/.pyenv/versions/3.13.0/bin/python3 dump_expect.py nfc   > nfc_expect.tsv
      unicodedata (Unicode 15.1.0) NFC of: every assigned single code point, ~120k
      (starter-ish x mark-ish) pairs, ~80k triples.
      line: input cps (hex, space separated) TAB expected NFC cps
"""
import sys


def cps(s):
    return " ".join("%04X" % ord(c) for c in s)


def do_idna():
    import bisect
    import idna
    from idna.uts46data import uts46data
    assert idna.__version__ == "3.13"
    prev = None
    start = 0
    for cp in range(0x110000):
        row = uts46data[cp if cp < 256 else bisect.bisect_left(uts46data, (cp, "Z")) - 1]
        v = (row[1], row[2] if len(row) == 3 and row[1] == "M" else "")
        if v != prev:
            if prev is not None:
                print("%04X..%04X\t%s\t%s" % (start, cp - 1, prev[0], cps(prev[1])))
            prev, start = v, cp
    print("%04X..%04X\t%s\t%s" % (start, 0x10FFFF, prev[0], cps(prev[1])))


def do_nfc():
    import unicodedata as u
    assert u.unidata_version == "15.1.0", u.unidata_version

    def emit(s):
        print("%s\t%s" % (cps(s), cps(u.normalize("NFC", s))))

    assigned = [c for c in range(0x110000) if u.category(chr(c)) not in ("Cn", "Cs")]
    n = 0
    for c in assigned:
        emit(chr(c))
        n += 1
    # A: code points with a canonical decomposition, their first elements, Hangul samples
    A, B = set(), set()
    for c in assigned:
        d = u.decomposition(chr(c))
        if d and not d.startswith("<"):
            A.add(c)
            parts = [int(x, 16) for x in d.split()]
            A.add(parts[0])
            if len(parts) == 2:
                B.add(parts[1])
        if u.combining(chr(c)):
            B.add(c)
    for c in (0x1100, 0x1112, 0x1113, 0x1161, 0x1175, 0x1176, 0x11A7, 0x11A8, 0x11C2, 0x11C3,
              0xAC00, 0xAC01, 0xAC1B, 0xAC1C, 0xD788, 0xD7A3, 0x61, 0x4E00):
        A.add(c)
        B.add(c)
    A, B = sorted(A), sorted(B)
    # pairs: systematic stride over A x B (stride coprime to |B|), ~120k
    total = len(A) * len(B)
    stride = max(1, total // 120000)
    while stride > 1 and (len(B) % stride == 0 or stride % 2 == 0):
        stride += 1
    k = 0
    while k < total:
        emit(chr(A[k // len(B)]) + chr(B[k % len(B)]))
        n += 1
        k += stride
    # triples: representative bases x marks x marks
    bases = [0x61, 0x65, 0xEA, 0x1EC7, 0x1EB8, 0x41, 0x3A9, 0x3C9, 0x1F00, 0x1F80, 0x391, 0x915, 0x928, 0x9C7, 0xB47,
             0xDD9, 0xDDC, 0x1025, 0x1B05, 0x627, 0x64A, 0x5D0, 0x5E9, 0xFB49, 0x30AB, 0x304B, 0x1100, 0xAC00,
             0xAC01, 0x1161, 0x212B, 0xC5, 0x344, 0xF73, 0x958, 0x2ADC, 0x1D157, 0x1D158, 0x11099, 0x11131,
             0x114B9, 0x115B8, 0x11935, 0xFB1D, 0x2126, 0x1E9B, 0x17F, 0x73, 0x1E63, 0x1E61, 0x4E00, 0xF900,
             0x2F800, 0x3099, 0x308, 0x44, 0x64, 0x6F, 0xF5, 0x22D]
    marks = [0x300, 0x301, 0x302, 0x303, 0x304, 0x306, 0x307, 0x308, 0x30A, 0x30C, 0x31B, 0x323, 0x327, 0x328, 0x32E,
             0x334, 0x338, 0x342, 0x345, 0x5B0, 0x5B4, 0x5BC, 0x5C1, 0x5C2, 0x64E, 0x651, 0x653, 0x654, 0x655,
             0x93C, 0x94D, 0x9BE, 0x9D7, 0xB3E, 0xB56, 0xB57, 0xDCA, 0xDCF, 0xDDF, 0x102E, 0x1B35, 0x3099, 0x309A,
             0x1161, 0x11A8, 0x11A7, 0x1D165, 0x1D16E, 0x110BA, 0x11127, 0x114B0, 0x114BA, 0x115AF, 0x11930,
             0x20D0, 0x200D, 0x61, 0xF74, 0xF71, 0xF72]
    i = 0
    for a in bases:
        for b in marks:
            for c in marks:
                i += 1
                if i % 3 == 0 and not (b in (0x323, 0x302, 0x301, 0x307) or c in (0x323, 0x302, 0x301, 0x307)):
                    continue
                emit(chr(a) + chr(b) + chr(c))
                n += 1
    sys.stderr.write("nfc vectors: %d\n" % n)


if __name__ == "__main__":
    {"idna": do_idna, "nfc": do_nfc}[sys.argv[1]]()
